// Package c15 monitors property C15: only opted-in profiles are logged, and
// each log line is one intact record.
//
// Part 1 drives the REAL middleware stack (dnssvc.NewHandlers via the stack
// kit) with a scripted filter storage, access manager and rate limiters and
// compares, per request, the query-log entries and billing records that came
// out with a model written from the property statement.  Part 2 drives the REAL
// querylog.FileSystem with 32 concurrent writers and checks the bytes of the
// file against doc/querylog.md.
package c15

import (
	"bytes"
	"context"
	"encoding/json"
	"fmt"
	"io"
	"math/rand/v2"
	"net/netip"
	"net/url"
	"os"
	"path/filepath"
	"runtime"
	"sort"
	"strings"
	"sync"
	"sync/atomic"
	"testing"
	"time"

	"github.com/AdguardTeam/AdGuardDNS/internal/access"
	"github.com/AdguardTeam/AdGuardDNS/internal/agd"
	"github.com/AdguardTeam/AdGuardDNS/internal/agdnet"
	"github.com/AdguardTeam/AdGuardDNS/internal/dnsmsg"
	"github.com/AdguardTeam/AdGuardDNS/internal/filter"
	"github.com/AdguardTeam/AdGuardDNS/internal/geoip"
	"github.com/AdguardTeam/AdGuardDNS/internal/querylog"
	"github.com/AdguardTeam/AdGuardDNS/verif/stack"
	"github.com/AdguardTeam/AdGuardDNS/verif/vkit"
	"github.com/miekg/dns"
)

// ---------------------------------------------------------------------------
// scripted filtering
// ---------------------------------------------------------------------------

const (
	kNone    = "none"
	kAllowed = "allowed"
	kBlocked = "blocked"
	kModResp = "modresp"
	kModReq  = "modreq"
)

var reqKinds = []string{kNone, kAllowed, kBlocked, kModResp, kModReq}
var respKinds = []string{kNone, kAllowed, kBlocked}

// verdict is the script for one request name.
type verdict struct {
	Req      string `json:"req"`
	Resp     string `json:"resp"`
	ReqList  string `json:"req_list,omitempty"`
	ReqRule  string `json:"req_rule,omitempty"`
	RespList string `json:"resp_list,omitempty"`
	RespRule string `json:"resp_rule,omitempty"`
	ModRcode int    `json:"mod_rcode,omitempty"`
	Target   string `json:"target,omitempty"`
}

// given is what the scripted filter actually handed to the code under test for
// one request name.
type given struct {
	Kind string `json:"kind"`
	List string `json:"list,omitempty"`
	Rule string `json:"rule,omitempty"`
}

type hostScript struct {
	v verdict

	mu        sync.Mutex
	reqCalls  int
	respCalls int
	gaveReq   given
	gaveResp  given
}

type scriptStorage struct {
	m sync.Map // host (lower case, no trailing dot) -> *hostScript
}

func hostKey(name string) string { return strings.ToLower(strings.TrimSuffix(name, ".")) }

func (s *scriptStorage) put(name string, v verdict) *hostScript {
	hs := &hostScript{v: v, gaveReq: given{Kind: kNone}, gaveResp: given{Kind: kNone}}
	s.m.Store(hostKey(name), hs)
	return hs
}

func (s *scriptStorage) del(name string) { s.m.Delete(hostKey(name)) }

func (s *scriptStorage) get(name string) *hostScript {
	v, ok := s.m.Load(hostKey(name))
	if !ok {
		return nil
	}
	return v.(*hostScript)
}

// ForConfig implements filter.Storage.  A nil configuration means "filtering
// disabled" and yields the empty filter, as the interface documents.
func (s *scriptStorage) ForConfig(_ context.Context, c filter.Config) filter.Interface {
	if c == nil {
		return filter.Empty{}
	}
	return &scriptFilter{s: s}
}

func (s *scriptStorage) HasListID(filter.ID) bool { return true }

type scriptFilter struct{ s *scriptStorage }

func (f *scriptFilter) FilterRequest(_ context.Context, req *filter.Request) (filter.Result, error) {
	hs := f.s.get(req.Host)
	if hs == nil {
		return nil, nil
	}
	v := hs.v
	var res filter.Result
	switch v.Req {
	case kAllowed:
		res = &filter.ResultAllowed{List: filter.ID(v.ReqList), Rule: filter.RuleText(v.ReqRule)}
	case kBlocked:
		res = &filter.ResultBlocked{List: filter.ID(v.ReqList), Rule: filter.RuleText(v.ReqRule)}
	case kModResp:
		m := &dns.Msg{}
		m.SetReply(req.DNS)
		m.RecursionAvailable = true
		m.Rcode = v.ModRcode
		if v.ModRcode == dns.RcodeSuccess && req.QType == dns.TypeA {
			m.Answer = append(m.Answer, &dns.A{
				Hdr: dns.RR_Header{Name: req.DNS.Question[0].Name, Rrtype: dns.TypeA, Class: dns.ClassINET, Ttl: 10},
				A:   []byte{192, 0, 2, 200},
			})
		}
		res = &filter.ResultModifiedResponse{Msg: m, List: filter.ID(v.ReqList), Rule: filter.RuleText(v.ReqRule)}
	case kModReq:
		m := req.DNS.Copy()
		m.Id = dns.Id()
		m.Question[0].Name = v.Target
		res = &filter.ResultModifiedRequest{Msg: m, List: filter.ID(v.ReqList), Rule: filter.RuleText(v.ReqRule)}
	}
	hs.mu.Lock()
	hs.reqCalls++
	if res != nil {
		hs.gaveReq = given{Kind: v.Req, List: v.ReqList, Rule: v.ReqRule}
	}
	hs.mu.Unlock()
	return res, nil
}

func (f *scriptFilter) FilterResponse(_ context.Context, resp *filter.Response) (filter.Result, error) {
	if resp.DNS == nil || len(resp.DNS.Question) == 0 {
		return nil, nil
	}
	hs := f.s.get(resp.DNS.Question[0].Name)
	if hs == nil {
		return nil, nil
	}
	v := hs.v
	var res filter.Result
	switch v.Resp {
	case kAllowed:
		res = &filter.ResultAllowed{List: filter.ID(v.RespList), Rule: filter.RuleText(v.RespRule)}
	case kBlocked:
		res = &filter.ResultBlocked{List: filter.ID(v.RespList), Rule: filter.RuleText(v.RespRule)}
	}
	hs.mu.Lock()
	hs.respCalls++
	if res != nil {
		hs.gaveResp = given{Kind: v.Resp, List: v.RespList, Rule: v.RespRule}
	}
	hs.mu.Unlock()
	return res, nil
}

func givenOf(res filter.Result) given {
	switch v := res.(type) {
	case nil:
		return given{Kind: kNone}
	case *filter.ResultAllowed:
		return given{Kind: kAllowed, List: string(v.List), Rule: string(v.Rule)}
	case *filter.ResultBlocked:
		return given{Kind: kBlocked, List: string(v.List), Rule: string(v.Rule)}
	case *filter.ResultModifiedResponse:
		return given{Kind: kModResp, List: string(v.List), Rule: string(v.Rule)}
	case *filter.ResultModifiedRequest:
		return given{Kind: kModReq, List: string(v.List), Rule: string(v.Rule)}
	default:
		return given{Kind: fmt.Sprintf("%T", res)}
	}
}

// ---------------------------------------------------------------------------
// scripted access / rate limiting / upstream (all keyed by labels of the name)
// ---------------------------------------------------------------------------

func hasLabel(name, label string) bool {
	n := "." + strings.ToLower(strings.TrimSuffix(name, ".")) + "."
	return strings.Contains(n, "."+label+".")
}

var blockedNet = netip.MustParsePrefix("203.0.113.192/26")

type accMgr struct{}

func (accMgr) IsBlockedHost(host string, _ uint16) bool { return hasLabel(host, "gacc") }
func (accMgr) IsBlockedIP(ip netip.Addr) bool           { return blockedNet.Contains(ip.Unmap()) }

type profAccess struct{}

func (profAccess) Config() *access.ProfileConfig { return nil }
func (profAccess) IsBlocked(req *dns.Msg, _ netip.AddrPort, _ *geoip.Location) bool {
	return hasLabel(req.Question[0].Name, "pacc")
}

type profRL struct{}

func (profRL) Check(_ context.Context, req *dns.Msg, _ netip.Addr) agd.RatelimitResult {
	switch n := req.Question[0].Name; {
	case hasLabel(n, "prl-drop"):
		return agd.RatelimitResultDrop
	case hasLabel(n, "prl-pass"):
		return agd.RatelimitResultPass
	}
	return agd.RatelimitResultUseGlobal
}
func (profRL) Config() *agd.RatelimitConfig                         { return &agd.RatelimitConfig{} }
func (profRL) CountResponses(context.Context, *dns.Msg, netip.Addr) {}

type globalRL struct{}

func (globalRL) IsRateLimited(_ context.Context, req *dns.Msg, _ netip.Addr) (bool, bool, error) {
	n := req.Question[0].Name
	return hasLabel(n, "grl-drop"), hasLabel(n, "grl-allow"), nil
}
func (globalRL) CountResponses(context.Context, *dns.Msg, netip.Addr) {}

type pwAuth string

func (p pwAuth) Authenticate(_ context.Context, passwd []byte) bool {
	return string(passwd) == string(p)
}

func upstream(ctx context.Context, req *dns.Msg, ri *agd.RequestInfo) (*dns.Msg, error) {
	resp, err := stack.DefaultUpstream(ctx, req, ri)
	if err != nil {
		return nil, err
	}
	n := req.Question[0].Name
	switch {
	case hasLabel(n, "ux-nx"):
		resp.Rcode = dns.RcodeNameError
		resp.Answer = nil
	case hasLabel(n, "ux-sf"):
		resp.Rcode = dns.RcodeServerFailure
		resp.Answer, resp.Ns = nil, nil
	}
	resp.AuthenticatedData = hasLabel(n, "ux-ad")
	if rc, ok := extRcode(n); ok {
		// An extended RCODE (BADVERS, BADCOOKIE, ...): the upper bits travel in
		// the OPT record, so the answer must carry one, and it goes through the
		// wire format, as an answer received by the real forwarder does.
		resp.Rcode = rc
		resp.Answer, resp.Ns = nil, nil
		if resp.IsEdns0() == nil {
			resp.SetEdns0(1232, false)
		}
		b, perr := resp.Pack()
		if perr != nil {
			return nil, fmt.Errorf("harness: packing extended-rcode answer: %w", perr)
		}
		resp = &dns.Msg{}
		if perr = resp.Unpack(b); perr != nil {
			return nil, fmt.Errorf("harness: unpacking extended-rcode answer: %w", perr)
		}
	}
	return resp, nil
}

// extRcodes are the extended response codes the scripted upstream can answer
// with: the assigned ones (BADVERS/BADSIG 16 ... BADCOOKIE 23) and unassigned
// ones whose low four bits equal a common RCODE.
var extRcodes = []int{16, 17, 18, 19, 20, 21, 22, 23, 32, 35, 37}

// extRcode returns the extended RCODE requested by a label "ux-rcN" of name.
func extRcode(name string) (rc int, ok bool) {
	for _, l := range strings.Split(strings.ToLower(name), ".") {
		if _, err := fmt.Sscanf(l, "ux-rc%d", &rc); err == nil && rc > 15 && rc <= 0xFFF {
			return rc, true
		}
	}
	return 0, false
}

// ---------------------------------------------------------------------------
// the world: servers, groups, profiles
// ---------------------------------------------------------------------------

const devDomain = "d.c15.example"

type profSpec struct {
	ID     string     `json:"id"`
	QL     bool       `json:"query_log_enabled"`
	IPLog  bool       `json:"ip_log_enabled"`
	Idx    int        `json:"-"`
	DevSNI string     `json:"-"`
	DevLnk string     `json:"-"`
	DevDed string     `json:"-"`
	DevPw  string     `json:"-"`
	DevHum string     `json:"-"`
	Linked netip.Addr `json:"-"`
	Dedic  netip.Addr `json:"-"`
}

type world struct {
	r       *vkit.Run
	st      *stack.Stack
	storage *scriptStorage
	geo     *stack.Geo
	g1, g2  *agd.ServerGroup
	srv     map[string]*agd.Server
	local   map[string]netip.AddrPort
	profs   []*profSpec
	ctr     atomic.Int64
	samples atomic.Int64
}

func mkProfile(id string, ql, ip bool, bm dnsmsg.BlockingMode) *agd.Profile {
	return &agd.Profile{
		FilterConfig: &filter.ConfigClient{Custom: &filter.ConfigCustom{}, Parental: &filter.ConfigParental{},
			RuleList: &filter.ConfigRuleList{}, SafeBrowsing: &filter.ConfigSafeBrowsing{}},
		Access: profAccess{}, BlockingMode: bm, Ratelimiter: profRL{}, ID: agd.ProfileID(id),
		FilteredResponseTTL: 10 * time.Second, FilteringEnabled: true, QueryLogEnabled: ql, IPLogEnabled: ip,
	}
}

func mkDevice(id string) *agd.Device {
	return &agd.Device{ID: agd.DeviceID(id), Auth: &agd.AuthSettings{PasswordHash: pwAuth("x")}, FilteringEnabled: true}
}

func newWorld(r *vkit.Run, sink querylog.Interface, yield func()) (*world, error) {
	w := &world{r: r, storage: &scriptStorage{}, geo: stack.NewGeo(), srv: map[string]*agd.Server{}, local: map[string]netip.AddrPort{}}
	add := func(name string, proto agd.Protocol, addr string, linked bool) *agd.Server {
		ap := netip.MustParseAddrPort(addr)
		s := stack.NewServer(name, proto, ap, linked)
		w.srv[name], w.local[name] = s, ap
		return s
	}
	dnsif := add("dnsif", agd.ProtoDNS, "192.0.2.64:53", false)
	dnsif.SetBindData([]*agd.ServerBindData{{PrefixAddr: &agdnet.PrefixNetAddr{
		Prefix: netip.MustParsePrefix("192.0.2.64/26"), Net: "udp", Port: 53}}})
	w.g1 = &agd.ServerGroup{DDR: stack.NewDDR(false), DeviceDomains: []string{devDomain}, Name: "g1", FilteringGroup: "fg",
		ProfilesEnabled: true, Servers: []*agd.Server{
			add("dns53", agd.ProtoDNS, "192.0.2.1:53", true), dnsif,
			add("dot", agd.ProtoDoT, "192.0.2.1:853", false), add("doq", agd.ProtoDoQ, "192.0.2.1:784", false),
			add("doh", agd.ProtoDoH, "192.0.2.1:443", false), add("dnscrypt", agd.ProtoDNSCrypt, "192.0.2.1:5443", false)}}
	w.g2 = &agd.ServerGroup{DDR: stack.NewDDR(false), DeviceDomains: []string{devDomain}, Name: "g2", FilteringGroup: "fg",
		ProfilesEnabled: false, Servers: []*agd.Server{
			add("dns53-g2", agd.ProtoDNS, "192.0.2.2:53", true), add("dot-g2", agd.ProtoDoT, "192.0.2.2:853", false)}}
	fg := &agd.FilteringGroup{ID: "fg", FilterConfig: &filter.ConfigGroup{Parental: &filter.ConfigParental{},
		RuleList: &filter.ConfigRuleList{}, SafeBrowsing: &filter.ConfigSafeBrowsing{}}}

	db := stack.NewMapDB()
	modes := []dnsmsg.BlockingMode{&dnsmsg.BlockingModeNullIP{}, &dnsmsg.BlockingModeNXDOMAIN{}, &dnsmsg.BlockingModeREFUSED{},
		&dnsmsg.BlockingModeCustomIP{IPv4: []netip.Addr{netip.MustParseAddr("192.0.2.250")}, IPv6: []netip.Addr{netip.MustParseAddr("2001:db8:ffff::1")}}}
	i := 0
	for _, ql := range []bool{true, false} {
		for _, ip := range []bool{true, false} {
			tag := fmt.Sprintf("q%di%d", b2i(ql), b2i(ip))
			ps := &profSpec{ID: "p" + tag, QL: ql, IPLog: ip, Idx: i, DevSNI: "d" + tag + "a", DevLnk: "d" + tag + "l",
				DevDed: "d" + tag + "d", DevPw: "d" + tag + "p", DevHum: "d" + tag + "h",
				Linked: netip.AddrFrom4([4]byte{203, 0, 113, byte(10 + i)}), Dedic: netip.AddrFrom4([4]byte{192, 0, 2, byte(70 + i)})}
			lnk := mkDevice(ps.DevLnk)
			lnk.LinkedIP = ps.Linked
			ded := mkDevice(ps.DevDed)
			ded.DedicatedIPs = []netip.Addr{ps.Dedic}
			pw := mkDevice(ps.DevPw)
			pw.Auth = &agd.AuthSettings{PasswordHash: pwAuth("secret"), Enabled: true, DoHAuthOnly: true}
			hum := mkDevice(ps.DevHum)
			hum.HumanIDLower = "myphone"
			prof := mkProfile(ps.ID, ql, ip, modes[i])
			prof.BlockFirefoxCanary, prof.BlockPrivateRelay, prof.BlockChromePrefetch = blocksSpecial(i), blocksSpecial(i), blocksSpecial(i)
			db.Add(prof, mkDevice(ps.DevSNI), lnk, ded, pw, hum)
			w.profs = append(w.profs, ps)
			i++
		}
	}
	// Special profiles: everything opted in, so that a missing gate shows.
	pnf := mkProfile("pnoflt", true, true, modes[0])
	pnf.FilteringEnabled = false
	db.Add(pnf, mkDevice("dnoflt"))
	dnf := mkDevice("ddevnf")
	dnf.FilteringEnabled = false
	db.Add(mkProfile("pdevnf", true, true, modes[0]), dnf)
	pdel := mkProfile("pdel", true, true, modes[0])
	pdel.Deleted = true
	// The deleted profile still lists its device, which can be reached by every
	// identification method (device ID, linked IP, dedicated IP).
	ddel := mkDevice("ddel")
	ddel.LinkedIP = netip.MustParseAddr("203.0.113.9")
	ddel.DedicatedIPs = []netip.Addr{netip.MustParseAddr("192.0.2.90")}
	db.Add(pdel, ddel)

	// Client networks.
	w.geo.AddNet(netip.MustParsePrefix("203.0.113.0/26"), &geoip.Location{Country: "DE", Continent: "EU", ASN: 1111})
	w.geo.AddNet(netip.MustParsePrefix("203.0.113.64/26"), &geoip.Location{Country: "FR", Continent: "EU", ASN: 2222})
	w.geo.AddNet(netip.MustParsePrefix("203.0.113.192/26"), &geoip.Location{Country: "NL", Continent: "EU", ASN: 4444})
	w.geo.AddNet(netip.MustParsePrefix("2001:db8:1::/48"), &geoip.Location{Country: "JP", Continent: "AS", ASN: 3333})
	// Answer networks (stack.DefaultUpstream's marker addresses).
	w.geo.AddNet(netip.MustParsePrefix("198.51.100.0/25"), &geoip.Location{Country: "US", Continent: "NA", ASN: 64500})
	w.geo.AddNet(netip.MustParsePrefix("198.51.100.128/25"), &geoip.Location{Country: "CA", Continent: "NA", ASN: 64501})
	w.geo.AddNet(netip.MustParsePrefix("2001:db8:5151::/48"), &geoip.Location{Country: "AU", Continent: "OC", ASN: 64502})

	st, err := stack.New(&stack.Options{
		FilterStorage: w.storage, ProfileDB: db, GeoIP: w.geo, AccessManager: accMgr{}, RateLimit: globalRL{},
		Upstream: upstream, QueryLog: sink, ServerGroups: []*agd.ServerGroup{w.g1, w.g2}, DNSCheck: dnsCheck{}, HashMatcher: hashMatcher{},
		FilteringGroups: map[agd.FilteringGroupID]*agd.FilteringGroup{"fg": fg}, Yield: yield,
	})
	if err != nil {
		return nil, err
	}
	w.st = st
	return w, nil
}

func b2i(b bool) int {
	if b {
		return 1
	}
	return 0
}

// ---------------------------------------------------------------------------
// cases
// ---------------------------------------------------------------------------

type caseSpec struct {
	Phase string `json:"phase"`
	Idx   int    `json:"idx"`
	AC    string `json:"attribution_class"`
	Srv   string `json:"server"`
	Group string `json:"group"`
	Proto int    `json:"protocol"`
	Name  string `json:"name"`
	QType uint16 `json:"qtype"`

	Remote string `json:"remote"`
	Local  string `json:"local"`
	SNI    string `json:"tls_server_name,omitempty"`
	Path   string `json:"url_path,omitempty"`
	User   string `json:"user,omitempty"`
	Pass   string `json:"pass,omitempty"`
	EDNSID string `json:"edns_cpe_id,omitempty"`

	// Model inputs, known by construction of the case.
	Attributed bool      `json:"expect_attributed"`
	Prof       *profSpec `json:"profile,omitempty"`
	ExpDevice  string    `json:"expect_device,omitempty"`
	Drop       string    `json:"expect_drop,omitempty"`
	V          verdict   `json:"scripted_verdict"`
	UX         string    `json:"upstream,omitempty"`
	// Special is the kind of specially-treated name, if any; Early means that
	// the query is answered before the main middleware (no entry / bill is
	// required); Fixed means that the name is not unique to the request.
	Special string `json:"special_name_kind,omitempty"`
	Early   bool   `json:"answered_before_main_middleware,omitempty"`
	Fixed   bool   `json:"-"`

	remote, local netip.AddrPort
	srv           *agd.Server
	grp           *agd.ServerGroup
}

var attributedACs = []string{"dot-sni", "doq-sni", "doh-path", "doh-userinfo", "dns-edns", "dns-linked", "dns-dedicated",
	"dot-humanid", "dns-edns-prl-pass", "dns-edns-grl-allow"}
var specialACs = []string{"dot-nofilter-prof", "dot-nofilter-dev"}
var anonACs = []string{"dot-noid", "dot-foreign-sni", "doq-noid", "doh-noid", "dns-noid", "dnscrypt-edns", "dot-unknown-dev",
	"g2-dot-sni", "g2-dns-edns", "g2-dns-linked", "deleted-prof", "deleted-prof-dedicated", "deleted-prof-linked", "deleted-prof-edns",
	"deleted-prof-doh", "authfail-dot", "authfail-doh-pass", "authfail-doh-nouserinfo"}
var dropACs = []string{"drop-gacc-ip", "drop-gacc-ip-anon", "drop-gacc-host", "drop-gacc-host-anon", "drop-pacc", "drop-grl",
	"drop-grl-anon", "drop-prl", "drop-unknown-dedicated", "drop-port0", "drop-device-error"}

var qtypes = []uint16{dns.TypeA, dns.TypeAAAA, dns.TypeTXT, dns.TypeHTTPS, dns.TypeMX}
var uxs = func() (l []string) {
	l = []string{"", "", "ux-ad", "ux-nx", "ux-sf", "", "", "ux-ad", "ux-nx", "ux-sf"}
	for _, rc := range extRcodes {
		l = append(l, fmt.Sprintf("ux-rc%d", rc))
	}
	return l
}()

func (w *world) clientAddr(rng *rand.Rand) netip.AddrPort {
	port := uint16(1024 + rng.IntN(60000))
	switch rng.IntN(4) {
	case 0:
		return netip.AddrPortFrom(netip.AddrFrom4([4]byte{203, 0, 113, byte(20 + rng.IntN(40))}), port)
	case 1:
		return netip.AddrPortFrom(netip.AddrFrom4([4]byte{203, 0, 113, byte(65 + rng.IntN(60))}), port)
	case 2:
		a := netip.MustParseAddr("2001:db8:1::").As16()
		a[14], a[15] = byte(rng.IntN(256)), byte(1+rng.IntN(255))
		return netip.AddrPortFrom(netip.AddrFrom16(a), port)
	default:
		return netip.AddrPortFrom(netip.AddrFrom4([4]byte{198, 18, byte(rng.IntN(256)), byte(1 + rng.IntN(254))}), port)
	}
}

// build constructs the case of class ac for profile p (ignored by classes that
// do not involve one of the four flag profiles).
func (w *world) build(rng *rand.Rand, phase string, idx int, ac string, p *profSpec, reqK, respK string, qt uint16, ux string) *caseSpec {
	c := &caseSpec{Phase: phase, Idx: idx, AC: ac, QType: qt, UX: ux, grp: w.g1}
	c.remote = w.clientAddr(rng)
	markers := ""
	if ux != "" {
		markers = ux + "."
	}
	use := func(srv string) { c.srv, c.local = w.srv[srv], w.local[srv] }
	attr := func(dev string) { c.Attributed, c.Prof, c.ExpDevice = true, p, dev }
	sni := func(dev string) { c.SNI = dev + "." + devDomain }
	special := func(prof, dev string) {
		c.Attributed, c.ExpDevice = true, dev
		c.Prof = &profSpec{ID: prof, QL: true, IPLog: true, Idx: -1}
	}
	switch ac {
	case "dot-sni":
		use("dot")
		sni(p.DevSNI)
		attr(p.DevSNI)
	case "doq-sni":
		use("doq")
		sni(p.DevSNI)
		attr(p.DevSNI)
	case "doh-path":
		use("doh")
		c.Path = "/dns-query/" + p.DevSNI
		attr(p.DevSNI)
	case "doh-userinfo":
		use("doh")
		c.Path = "/dns-query"
		c.User, c.Pass = p.DevPw, "secret"
		attr(p.DevPw)
	case "dns-edns":
		use("dns53")
		c.EDNSID = p.DevSNI
		attr(p.DevSNI)
	case "dns-edns-prl-pass":
		use("dns53")
		c.EDNSID = p.DevSNI
		attr(p.DevSNI)
		markers += "prl-pass."
	case "dns-edns-grl-allow":
		use("dns53")
		c.EDNSID = p.DevSNI
		attr(p.DevSNI)
		markers += "grl-allow."
	case "dns-linked":
		use("dns53")
		c.remote = netip.AddrPortFrom(p.Linked, c.remote.Port())
		attr(p.DevLnk)
	case "dns-dedicated":
		use("dnsif")
		c.local = netip.AddrPortFrom(p.Dedic, 53)
		attr(p.DevDed)
	case "dot-humanid":
		use("dot")
		c.SNI = "otr-" + p.ID + "-myphone." + devDomain
		attr(p.DevHum)
	case "dot-nofilter-prof":
		use("dot")
		sni("dnoflt")
		special("pnoflt", "dnoflt")
	case "dot-nofilter-dev":
		use("dot")
		sni("ddevnf")
		special("pdevnf", "ddevnf")

	case "dot-noid":
		use("dot")
	case "dot-foreign-sni":
		use("dot")
		c.SNI = p.DevSNI + ".other.example"
	case "doq-noid":
		use("doq")
	case "doh-noid":
		use("doh")
		c.Path = "/dns-query"
	case "dns-noid":
		use("dns53")
	case "dnscrypt-edns":
		use("dnscrypt")
		c.EDNSID = p.DevSNI
	case "dot-unknown-dev":
		use("dot")
		sni("nosuchdv")
	case "g2-dot-sni":
		use("dot-g2")
		c.grp = w.g2
		sni(p.DevSNI)
	case "g2-dns-edns":
		use("dns53-g2")
		c.grp = w.g2
		c.EDNSID = p.DevSNI
	case "g2-dns-linked":
		use("dns53-g2")
		c.grp = w.g2
		c.remote = netip.AddrPortFrom(p.Linked, c.remote.Port())
	case "deleted-prof":
		use("dot")
		sni("ddel")
	case "deleted-prof-dedicated":
		use("dnsif")
		c.local = netip.AddrPortFrom(netip.MustParseAddr("192.0.2.90"), 53)
	case "deleted-prof-linked":
		use("dns53")
		c.remote = netip.AddrPortFrom(netip.MustParseAddr("203.0.113.9"), c.remote.Port())
	case "deleted-prof-edns":
		use("dns53")
		c.EDNSID = "ddel"
	case "deleted-prof-doh":
		use("doh")
		c.Path = "/dns-query/ddel"
	case "authfail-dot":
		use("dot")
		sni(p.DevPw)
	case "authfail-doh-pass":
		use("doh")
		c.Path = "/dns-query"
		c.User, c.Pass = p.DevPw, "wrong"
	case "authfail-doh-nouserinfo":
		use("doh")
		c.Path = "/dns-query/" + p.DevPw

	case "drop-gacc-ip":
		use("dot")
		sni(p.DevSNI)
		c.Prof = p
		c.remote = netip.AddrPortFrom(netip.AddrFrom4([4]byte{203, 0, 113, byte(193 + rng.IntN(60))}), c.remote.Port())
	case "drop-gacc-ip-anon":
		use("dns53")
		c.remote = netip.AddrPortFrom(netip.AddrFrom4([4]byte{203, 0, 113, byte(193 + rng.IntN(60))}), c.remote.Port())
	case "drop-gacc-host":
		use("doq")
		sni(p.DevSNI)
		c.Prof = p
		markers += "gacc."
	case "drop-gacc-host-anon":
		use("doh")
		c.Path = "/dns-query"
		markers += "gacc."
	case "drop-pacc":
		use("doh")
		c.Path = "/dns-query/" + p.DevSNI
		c.Prof = p
		markers += "pacc."
	case "drop-grl":
		use("dns53")
		c.EDNSID = p.DevSNI
		c.Prof = p
		markers += "grl-drop."
	case "drop-grl-anon":
		use("dns53")
		markers += "grl-drop."
	case "drop-prl":
		use("dns53")
		c.remote = netip.AddrPortFrom(p.Linked, c.remote.Port())
		c.Prof = p
		markers += "prl-drop."
	case "drop-unknown-dedicated":
		use("dnsif")
		c.local = netip.AddrPortFrom(netip.AddrFrom4([4]byte{192, 0, 2, byte(100 + rng.IntN(20))}), 53)
	case "drop-port0":
		use("dns53")
		c.EDNSID = p.DevSNI
		c.Prof = p
		c.remote = netip.AddrPortFrom(c.remote.Addr(), 0)
	case "drop-device-error":
		use("doh")
		c.Path = "/dns-query/waytoolongdeviceid"
	default:
		panic("unknown class " + ac)
	}
	if strings.HasPrefix(ac, "drop-") {
		c.Drop = ac
	}
	n := w.ctr.Add(1)
	c.Name = fmt.Sprintf("q%07d-%s.%sc15.example.", n, phase, markers)
	c.V = verdict{Req: reqK, Resp: respK}
	if reqK != kNone {
		c.V.ReqList, c.V.ReqRule = pickList(rng), pickRule(rng, c.Name)
	}
	if respK != kNone {
		c.V.RespList, c.V.RespRule = pickList(rng), pickRule(rng, c.Name)
	}
	if reqK == kModResp {
		c.V.ModRcode = []int{dns.RcodeSuccess, dns.RcodeNameError, dns.RcodeRefused}[rng.IntN(3)]
	}
	if reqK == kModReq {
		tux := uxs[rng.IntN(len(uxs))]
		if tux != "" {
			tux += "."
		}
		c.V.Target = fmt.Sprintf("t%07d-target.%srw.c15.example.", n, tux)
	}
	c.Srv, c.Group, c.Proto = string(c.srv.Name), string(c.grp.Name), int(c.srv.Protocol)
	c.Remote, c.Local = c.remote.String(), c.local.String()
	return c
}

var listIDs = []string{string(filter.IDAdGuardDNS), string(filter.IDCustom), string(filter.IDBlockedService), string(filter.IDSafeBrowsing),
	string(filter.IDAdultBlocking), string(filter.IDNewRegDomains), string(filter.IDGeneralSafeSearch), string(filter.IDYoutubeSafeSearch)}

func pickList(rng *rand.Rand) string {
	if rng.IntN(3) == 0 {
		return fmt.Sprintf("list_%04d", rng.IntN(10000))
	}
	return listIDs[rng.IntN(len(listIDs))]
}

// pickRule returns a rule text that is unique to the request (it embeds the
// request name) and exercises the characters a rule text may contain.
func pickRule(rng *rand.Rand, name string) string {
	host := strings.TrimSuffix(name, ".")
	switch rng.IntN(8) {
	case 0:
		return "||" + host + "^$dnsrewrite=NOERROR;CNAME;\"x\""
	case 1:
		return "@@||" + host + "^|" + strings.Repeat("й", 40) + "日本語✓"
	case 2:
		return "/" + host + "\\.(a|b)/ \"quoted\" 'single' \\back"
	case 3:
		return "||" + host + "^\nsecond line\r\n\tthird"
	case 4:
		return "||" + host + "^<script>&amp;</script>\u2028\u2029"
	case 5:
		return "||" + host + "^" + strings.Repeat("x", 1024-len(host)-3)
	case 6:
		return "svc_" + host
	default:
		return "||" + host + "^"
	}
}

func (c *caseSpec) message(rng *rand.Rand) *dns.Msg {
	m := stack.NewQuery(uint16(rng.IntN(65536)), c.Name, c.QType, dns.ClassINET)
	if c.EDNSID != "" || rng.IntN(3) == 0 || strings.HasPrefix(c.UX, "ux-rc") {
		m.SetEdns0(1232, rng.IntN(2) == 0)
		if c.EDNSID != "" {
			o := m.IsEdns0()
			o.Option = append(o.Option, &dns.EDNS0_LOCAL{Code: 65074, Data: []byte(c.EDNSID)})
		}
	}
	return m
}

func (c *caseSpec) request(rng *rand.Rand) *stack.Request {
	rq := &stack.Request{Server: c.srv, Group: c.grp, Msg: c.message(rng), Remote: c.remote, Local: c.local, TLSServerName: c.SNI}
	if c.srv.Protocol == agd.ProtoDoH {
		rq.URL = &url.URL{Path: c.Path}
		if c.User != "" {
			rq.Userinfo = url.UserPassword(c.User, c.Pass)
		}
	}
	return rq
}

func (c *caseSpec) classKey() string {
	ql, ip := "-", "-"
	if c.Prof != nil {
		ql, ip = fmt.Sprint(b2i(c.Prof.QL)), fmt.Sprint(b2i(c.Prof.IPLog))
	}
	k := fmt.Sprintf("p1|%s|%s|ql%s|ip%s|%s|%s", c.Phase, c.AC, ql, ip, c.V.Req, c.V.Resp)
	if c.Special != "" {
		k += "|" + c.Special
	}
	return k
}

func (c *caseSpec) nontrivial() bool {
	return !(c.Attributed && c.Prof.QL && c.Prof.IPLog && c.V.Req == kNone && c.V.Resp == kNone)
}

// ---------------------------------------------------------------------------
// the per-request oracle
// ---------------------------------------------------------------------------

type entryView struct {
	RequestID string `json:"request_id"`
	Profile   string `json:"profile"`
	Device    string `json:"device"`
	Name      string `json:"name"`
	QType     uint16 `json:"qtype"`
	RCode     uint16 `json:"rcode"`
	Proto     int    `json:"protocol"`
	Req       given  `json:"request_result"`
	Resp      given  `json:"response_result"`
	RemoteIP  string `json:"remote_ip"`
	Ctry      string `json:"client_country"`
	ASN       uint32 `json:"client_asn"`
	RespCtry  string `json:"response_country"`
	DNSSEC    bool   `json:"dnssec"`
}

func viewEntry(e *querylog.Entry) entryView {
	ip := ""
	if e.RemoteIP != (netip.Addr{}) {
		ip = e.RemoteIP.String()
	}
	return entryView{RequestID: e.RequestID.String(), Profile: string(e.ProfileID), Device: string(e.DeviceID), Name: e.DomainFQDN,
		QType: e.RequestType, RCode: uint16(e.ResponseCode), Proto: int(e.Protocol), Req: givenOf(e.RequestResult), Resp: givenOf(e.ResponseResult),
		RemoteIP: ip, Ctry: string(e.ClientCountry), ASN: uint32(e.ClientASN), RespCtry: string(e.ResponseCountry), DNSSEC: e.DNSSEC}
}

type billView struct {
	Device string `json:"device"`
	Ctry   string `json:"country"`
	ASN    uint32 `json:"asn"`
	Proto  int    `json:"protocol"`
}

func firstIP(m *dns.Msg) (netip.Addr, bool) {
	for _, rr := range m.Answer {
		switch v := rr.(type) {
		case *dns.A:
			a, ok := netip.AddrFromSlice(v.A)
			return a.Unmap(), ok
		case *dns.AAAA:
			a, ok := netip.AddrFromSlice(v.AAAA)
			return a, ok
		case *dns.HTTPS:
			for _, kv := range v.Value {
				switch h := kv.(type) {
				case *dns.SVCBIPv4Hint:
					if len(h.Hint) > 0 {
						a, ok := netip.AddrFromSlice(h.Hint[0])
						return a.Unmap(), ok
					}
				case *dns.SVCBIPv6Hint:
					if len(h.Hint) > 0 {
						a, ok := netip.AddrFromSlice(h.Hint[0])
						return a, ok
					}
				}
			}
			return netip.Addr{}, false
		}
	}
	return netip.Addr{}, false
}

func (w *world) geoOf(ip netip.Addr) (geoip.Country, geoip.ASN) {
	l, _ := w.geo.Data("", ip)
	if l == nil {
		return geoip.CountryNone, 0
	}
	return l.Country, l.ASN
}

// result of judging one case, used by the end-to-end file check.
type judged struct {
	c       *caseSpec
	id      agd.RequestID
	entries []*querylog.Entry
	// rcode is the response code the client received (after wire packing and
	// unpacking), -1 if it received nothing.
	rcode int
}

func (w *world) run(c *caseSpec, rng *rand.Rand) *judged {
	r := w.r
	var hs *hostScript
	if !c.Fixed {
		hs = w.storage.put(c.Name, c.V)
		defer w.storage.del(c.Name)
	}
	rq := c.request(rng)
	t0 := time.Now()
	out := w.st.Serve(rq)
	t1 := time.Now()
	defer w.st.Forget(out)

	tr := out.Trace
	logs, bills := tr.QueryLog, tr.Bill
	gReq, gResp := given{Kind: kNone}, given{Kind: kNone}
	if hs != nil {
		hs.mu.Lock()
		gReq, gResp = hs.gaveReq, hs.gaveResp
		hs.mu.Unlock()
	}

	r.Eval(c.classKey(), c.nontrivial())
	r.Bucket("p1.cases", 1)
	r.Bucket(fmt.Sprintf("p1.proto.%d", c.Proto), 1)
	r.Bucket("p1.log_entries", int64(len(logs)))
	r.Bucket("p1.bill_records", int64(len(bills)))

	var rcodes []int
	for _, m := range out.Responses {
		rcodes = append(rcodes, m.Rcode)
	}
	wit := func(extra map[string]any) map[string]any {
		ev := []entryView{}
		for _, e := range logs {
			ev = append(ev, viewEntry(e))
		}
		bv := []billView{}
		for _, b := range bills {
			bv = append(bv, billView{string(b.Device), string(b.Ctry), uint32(b.ASN), int(b.Proto)})
		}
		m := map[string]any{"case": c, "request_id": out.ID.String(), "response_rcodes": rcodes, "serve_error": fmt.Sprint(out.Err),
			"filter_gave_request": gReq, "filter_gave_response": gResp, "log_entries": ev, "bill_records": bv, "errors_collected": tr.Errors}
		for k, v := range extra {
			m[k] = v
		}
		return m
	}
	res := &judged{c: c, id: out.ID, entries: logs, rcode: -1}
	if len(out.Responses) > 0 {
		res.rcode = out.Responses[0].Rcode
	}
	if out.Panic != nil {
		r.Violation("panic:serve:"+c.AC, "the stack panicked on a legal request", wit(map[string]any{"panic": fmt.Sprint(out.Panic)}))
		return res
	}
	for _, e := range tr.Errors {
		if strings.Contains(e, "query log") {
			r.Bucket("p1.sink_errors", 1)
		}
	}
	answered := len(out.Responses) > 0

	// Privacy part 1: dropped, access-blocked, anonymous.
	if c.Drop != "" {
		r.Bucket("p1."+c.Drop, 1)
		if len(logs) > 0 {
			r.Violation("dropped-logged:"+c.Drop, "a dropped / access-blocked query produced a query-log entry", wit(nil))
		}
		if len(bills) > 0 {
			r.Violation("dropped-billed:"+c.Drop, "a dropped / access-blocked query produced a billing record", wit(nil))
		}
		if answered {
			r.Bucket("p1.drop_class_answered", 1)
		}
		return res
	}
	if !answered {
		r.Bucket("p1.served_class_unanswered", 1)
		return res
	}
	if len(out.Responses) > 1 {
		r.Bucket("p1.multiple_responses", 1)
	}
	if !c.Attributed {
		r.Bucket("p1.anon_served", 1)
		r.Bucket("p1.anon."+c.AC, 1)
		if len(logs) > 0 {
			r.Violation("anon-logged:"+c.AC, "a query that is not attributed to a profile produced a query-log entry", wit(nil))
		}
		if len(bills) > 0 {
			r.Violation("anon-billed:"+c.AC, "a query that is not attributed to a profile produced a billing record", wit(nil))
		}
		return res
	}

	// Attributed and answered.
	r.Bucket("p1.attributed_served", 1)
	wantCtry, wantASN := w.geoOf(c.remote.Addr())
	if c.Special != "" {
		r.Bucket("p1.special."+c.Special, 1)
		if c.Early {
			r.Bucket("p1.special_early."+c.Special, 1)
		}
	}
	switch {
	case len(bills) == 0 && c.Early:
		r.Bucket("p1.early_not_billed", 1)
	case len(bills) == 0:
		r.Violation("missing-bill:"+c.AC, "an attributed, answered query produced no billing record", wit(nil))
	case len(bills) > 1:
		r.Violation("duplicate-bill:"+c.AC, "one query produced several billing records", wit(nil))
	}
	for _, b := range bills {
		bad := func(f string, want, got any) {
			r.Violation("bill-field:"+f, "billing record does not describe its own request",
				wit(map[string]any{"field": f, "want": fmt.Sprint(want), "got": fmt.Sprint(got)}))
		}
		if string(b.Device) != c.ExpDevice {
			bad("device", c.ExpDevice, b.Device)
		}
		if b.Ctry != wantCtry {
			bad("country", wantCtry, b.Ctry)
		}
		if b.ASN != wantASN {
			bad("asn", wantASN, b.ASN)
		}
		if int(b.Proto) != c.Proto {
			bad("protocol", c.Proto, b.Proto)
		}
		if b.Start.Before(t0) || b.Start.After(t1) {
			bad("start-time", fmt.Sprintf("[%v, %v]", t0, t1), b.Start)
		}
	}
	if !c.Prof.QL {
		r.Bucket("p1.qlog_suppressed", 1)
		if len(logs) > 0 {
			r.Violation("qlog-disabled-logged:"+c.V.Req+"/"+c.V.Resp,
				"a query of a profile with query logging disabled produced a query-log entry", wit(nil))
		}
		return res
	}
	switch {
	case len(logs) == 0 && c.Early:
		r.Bucket("p1.early_not_logged", 1)
	case len(logs) == 0:
		r.Violation("missing-entry:"+c.AC, "an answered query of a profile with query logging enabled produced no entry", wit(nil))
	case len(logs) > 1:
		r.Violation("duplicate-entry:"+c.AC, "one query produced several query-log entries", wit(nil))
	}
	resp := out.Responses[0]
	for _, e := range logs {
		bad := func(f string, want, got any) {
			r.Violation("entry-field:"+f, "query-log entry does not describe its own request",
				wit(map[string]any{"field": f, "want": fmt.Sprint(want), "got": fmt.Sprint(got)}))
		}
		// Client address gate.
		if c.Prof.IPLog {
			r.Bucket("p1.ip_logged", 1)
			if e.RemoteIP.Unmap() != c.remote.Addr().Unmap() {
				bad("remote-ip", c.remote.Addr(), e.RemoteIP)
			}
		} else {
			r.Bucket("p1.ip_suppressed", 1)
			if e.RemoteIP != (netip.Addr{}) {
				r.Violation("ip-logged-without-optin:"+c.V.Req+"/"+c.V.Resp,
					"entry of a profile with IP logging disabled contains the client address", wit(nil))
			}
		}
		if e.RequestID != out.ID {
			bad("request-id", out.ID, e.RequestID)
		}
		if !strings.EqualFold(e.DomainFQDN, c.Name) {
			bad("name", c.Name, e.DomainFQDN)
		}
		if c.Special != "" {
			r.Bucket("p1.special_entries_checked."+c.Special, 1)
		}
		if e.RequestType != c.QType {
			bad("qtype", c.QType, e.RequestType)
		}
		if int(e.ResponseCode) != resp.Rcode {
			bad("rcode", resp.Rcode, e.ResponseCode)
		}
		if resp.Rcode > 0xF {
			r.Bucket("p1.ext_rcode_entries_checked", 1)
			r.Bucket(fmt.Sprintf("p1.ext_rcode.%d", resp.Rcode), 1)
		}
		if int(e.Protocol) != c.Proto {
			bad("protocol", c.Proto, e.Protocol)
		}
		if string(e.ProfileID) != c.Prof.ID {
			bad("profile", c.Prof.ID, e.ProfileID)
		}
		if string(e.DeviceID) != c.ExpDevice {
			bad("device", c.ExpDevice, e.DeviceID)
		}
		if g := givenOf(e.RequestResult); g != gReq {
			bad("request-result", vkit.JSON(gReq), vkit.JSON(g))
		}
		if g := givenOf(e.ResponseResult); g != gResp {
			bad("response-result", vkit.JSON(gResp), vkit.JSON(g))
		}
		if e.ClientCountry != wantCtry {
			bad("client-country", wantCtry, e.ClientCountry)
		}
		if e.ClientASN != wantASN {
			bad("client-asn", wantASN, e.ClientASN)
		}
		if e.Time.Before(t0) || e.Time.After(t1) {
			bad("time", fmt.Sprintf("[%v, %v]", t0, t1), e.Time)
		}
		if e.Elapsed < 0 || e.Elapsed > t1.Sub(t0) {
			bad("elapsed", fmt.Sprintf("[0, %v]", t1.Sub(t0)), e.Elapsed)
		}
		unfiltered := (gReq.Kind == kNone || gReq.Kind == kAllowed) && (gResp.Kind == kNone || gResp.Kind == kAllowed)
		if unfiltered {
			if want := c.UX == "ux-ad"; e.DNSSEC != want {
				bad("dnssec", want, e.DNSSEC)
			}
			if resp.Rcode == dns.RcodeSuccess {
				want := geoip.CountryNotApplicable
				if ip, ok := firstIP(resp); ok {
					want, _ = w.geoOf(ip)
				}
				r.Bucket("p1.response_country_checked", 1)
				if e.ResponseCountry != want {
					bad("response-country", want, e.ResponseCountry)
				}
			}
		}
		r.Bucket("p1.entries_checked", 1)
		r.Bucket("p1.verdict."+gReq.Kind+"/"+gResp.Kind, 1)
	}
	if c.Idx%97 == 0 && w.samples.Add(1) <= 2 {
		r.Sample(wit(nil))
	}
	return res
}

// ---------------------------------------------------------------------------
// documented line format (doc/querylog.md)
// ---------------------------------------------------------------------------

// lineExp is the expected JSON object of one entry per doc/querylog.md: key ->
// either a string or an integer; keys not listed must be absent, except "rn"
// (any 16-bit unsigned integer).
type lineExp struct {
	S map[string]string
	N map[string]int64
}

// docResult models properties f, l, m: the first matching side wins (request
// before response); codes 1..6 as documented.
func docResult(req, resp given) (code int64, list, rule string) {
	g, side := req, "req"
	if req.Kind == kNone {
		g, side = resp, "resp"
	}
	switch g.Kind {
	case kNone:
		return 1, "", ""
	case kBlocked:
		code = 2
		if side == "resp" {
			code = 3
		}
	case kAllowed:
		code = 4
		if side == "resp" {
			code = 5
		}
	case kModResp, kModReq:
		code = 6
	}
	return code, g.List, g.Rule
}

func docLine(e *querylog.Entry) *lineExp {
	x := &lineExp{S: map[string]string{}, N: map[string]int64{}}
	x.S["u"] = e.RequestID.String()
	x.S["b"] = string(e.ProfileID)
	x.S["i"] = string(e.DeviceID)
	if e.ClientCountry != "" {
		x.S["c"] = string(e.ClientCountry)
	}
	if e.ResponseCountry != "" {
		x.S["d"] = string(e.ResponseCountry)
	}
	x.S["n"] = e.DomainFQDN
	code, list, rule := docResult(givenOf(e.RequestResult), givenOf(e.ResponseResult))
	if list != "" {
		x.S["l"] = list
	}
	if rule != "" {
		x.S["m"] = rule
	}
	x.N["t"] = e.Time.UnixMilli()
	if e.ClientASN != 0 {
		x.N["a"] = int64(e.ClientASN)
	}
	x.N["e"] = e.Elapsed.Milliseconds()
	x.N["q"] = int64(e.RequestType)
	x.N["r"] = int64(e.ResponseCode)
	x.N["f"] = code
	x.N["s"] = int64(b2i(e.DNSSEC))
	x.N["p"] = int64(e.Protocol)
	if e.RemoteIP != (netip.Addr{}) {
		x.S["ip"] = e.RemoteIP.String()
	}
	return x
}

// checkFile verifies that the file consists solely of complete single-line
// JSON objects, exactly one per expected request ID, each equal to its model.
// It returns the parsed lines by request ID.
func checkFile(r *vkit.Run, prefix, path string, exp map[string]*lineExp) map[string]map[string]any {
	data, err := os.ReadFile(path)
	if err != nil {
		if len(exp) == 0 && os.IsNotExist(err) {
			return nil
		}
		r.Inconclusive(prefix + ": cannot read the log file: " + err.Error())
		return nil
	}
	r.Bucket(prefix+".bytes", int64(len(data)))
	vio := func(key, what string, w map[string]any) {
		w["file_bytes"], w["expected_lines"] = len(data), len(exp)
		r.Violation(prefix+":"+key, what, w)
	}
	if len(data) > 0 && data[len(data)-1] != '\n' {
		tail := data
		if len(tail) > 300 {
			tail = tail[len(tail)-300:]
		}
		vio("no-trailing-newline", "the file does not end with a complete line", map[string]any{"tail": string(tail)})
	}
	lines := bytes.Split(data, []byte{'\n'})
	if n := len(lines); n > 0 && len(lines[n-1]) == 0 {
		lines = lines[:n-1]
	}
	seen := map[string]int{}
	parsed := map[string]map[string]any{}
	maxLine := 0
	for ln, raw := range lines {
		r.Bucket(prefix+".lines", 1)
		if len(raw) > maxLine {
			maxLine = len(raw)
		}
		clip := string(raw)
		if len(clip) > 600 {
			clip = clip[:300] + " … " + clip[len(clip)-300:]
		}
		dec := json.NewDecoder(bytes.NewReader(raw))
		dec.UseNumber()
		obj := map[string]any{}
		var rest json.RawMessage
		if err = dec.Decode(&obj); err != nil {
			vio("torn-line", "a line of the log file is not a complete JSON object", map[string]any{"line_no": ln + 1, "line": clip, "error": err.Error()})
			continue
		} else if err = dec.Decode(&rest); err != io.EOF {
			vio("torn-line", "a line of the log file holds more than one JSON value", map[string]any{"line_no": ln + 1, "line": clip})
			continue
		}
		u, _ := obj["u"].(string)
		seen[u]++
		x, ok := exp[u]
		if !ok {
			vio("unexpected-line", "the file holds a line whose request ID was never logged", map[string]any{"line_no": ln + 1, "line": clip})
			continue
		}
		if seen[u] > 1 {
			vio("duplicate-line", "the file holds several lines for one logged request", map[string]any{"line_no": ln + 1, "line": clip})
			continue
		}
		parsed[u] = obj
		bad := func(k string, want, got any) {
			vio("field:"+k, "a line does not equal its entry as documented in doc/querylog.md",
				map[string]any{"line_no": ln + 1, "line": clip, "key": k, "want": fmt.Sprint(want), "got": fmt.Sprint(got)})
		}
		for k, want := range x.S {
			if got, isStr := obj[k].(string); !isStr || got != want {
				bad(k, want, obj[k])
			}
		}
		for k, want := range x.N {
			got, isNum := obj[k].(json.Number)
			if !isNum || got.String() != fmt.Sprint(want) {
				bad(k, want, obj[k])
			}
		}
		if rn, isNum := obj["rn"].(json.Number); !isNum {
			bad("rn", "16-bit unsigned integer", obj["rn"])
		} else if v, perr := rn.Int64(); perr != nil || v < 0 || v > 65535 {
			bad("rn", "16-bit unsigned integer", rn)
		}
		for k := range obj {
			_, inS := x.S[k]
			_, inN := x.N[k]
			if !inS && !inN && k != "rn" {
				key := "extra-key:" + k
				if k == "ip" {
					key = "ip-present-but-not-in-entry"
				}
				vio(key, "a line holds a property that its entry must not produce", map[string]any{"line_no": ln + 1, "line": clip, "key": k})
			}
		}
		r.Bucket(prefix+".lines_matched", 1)
	}
	r.Bucket(prefix+".max_line_bytes", int64(maxLine))
	missing := []string{}
	for u := range exp {
		if seen[u] == 0 {
			missing = append(missing, u)
		}
	}
	if len(missing) > 0 {
		sort.Strings(missing)
		n := len(missing)
		if n > 10 {
			missing = missing[:10]
		}
		vio("lost-line", "a logged request has no line in the file", map[string]any{"missing_count": n, "first_missing_ids": missing})
	}
	return parsed
}

// ---------------------------------------------------------------------------
// Part 1 drivers
// ---------------------------------------------------------------------------

func scratch(t *testing.T) string {
	if d := os.Getenv("VERIF_SCRATCH"); d != "" {
		return d
	}
	return t.TempDir()
}

func part1Sequential(t *testing.T, r *vkit.Run) {
	w, err := newWorld(r, nil, nil)
	if err != nil {
		r.Inconclusive("cannot build the stack: " + err.Error())
		return
	}
	idx := 0
	one := func(ac string, p *profSpec, rk, pk string) {
		rng := r.Rand("seq", idx)
		c := w.build(rng, "seq", idx, ac, p, rk, pk, qtypes[rng.IntN(len(qtypes))], uxs[rng.IntN(len(uxs))])
		w.run(c, rng)
		idx++
	}
	reps := r.N(1, 4)
	for rep := 0; rep < reps; rep++ {
		for _, rk := range reqKinds {
			for _, pk := range respKinds {
				for _, p := range w.profs {
					for _, ac := range attributedACs {
						one(ac, p, rk, pk)
					}
				}
				for _, ac := range specialACs {
					one(ac, w.profs[0], rk, pk)
				}
				for i, ac := range anonACs {
					// The tempting identifier belongs to an opted-in profile.
					one(ac, w.profs[(i+rep)%2], rk, pk)
				}
			}
		}
		for _, ac := range dropACs {
			for _, p := range w.profs {
				for _, rk := range []string{kNone, kBlocked, kModReq} {
					one(ac, p, rk, kNone)
				}
			}
		}
		// Specially-treated names, by every eligible attribution class.
		for _, kind := range specialKinds {
			for ai, ac := range specialEligible {
				for pi, p := range w.profs {
					v := [][2]string{{kNone, kNone}, {kAllowed, kNone}, {kBlocked, kNone}, {kNone, kBlocked}, {kNone, kAllowed}, {kModReq, kNone}}[(ai+pi+rep)%6]
					rng := r.Rand("seq", idx)
					c := w.build(rng, "seq", idx, ac, p, v[0], v[1], qtypes[rng.IntN(len(qtypes))], "")
					w.specialize(c, rng, kind)
					w.run(c, rng)
					idx++
				}
			}
		}
	}
	r.Extra("sequential_cases", idx)
}

func randomCase(w *world, r *vkit.Run, phase string, idx int) (*caseSpec, *rand.Rand) {
	rng := r.Rand(phase, idx)
	var ac string
	switch x := rng.IntN(100); {
	case x < 55:
		ac = attributedACs[rng.IntN(len(attributedACs))]
	case x < 60:
		ac = specialACs[rng.IntN(len(specialACs))]
	case x < 82:
		ac = anonACs[rng.IntN(len(anonACs))]
	default:
		ac = dropACs[rng.IntN(len(dropACs))]
	}
	p := w.profs[rng.IntN(len(w.profs))]
	rk := reqKinds[rng.IntN(len(reqKinds))]
	pk := respKinds[rng.IntN(len(respKinds))]
	c := w.build(rng, phase, idx, ac, p, rk, pk, qtypes[rng.IntN(len(qtypes))], uxs[rng.IntN(len(uxs))])
	if isEligible(ac) && rng.IntN(4) == 0 {
		kind := specialKinds[rng.IntN(len(specialKinds))]
		if rng.IntN(2) == 0 {
			kind = androidKinds[rng.IntN(len(androidKinds))]
		}
		w.specialize(c, rng, kind)
	}
	return c, rng
}

const workers = 32

func part1Concurrent(t *testing.T, r *vkit.Run) {
	path := filepath.Join(scratch(t), "c15-e2e-querylog.jsonl")
	_ = os.Remove(path)
	sink := querylog.NewFileSystem(&querylog.FileSystemConfig{Logger: stack.Logger(), Path: path, RandSeed: uint64(r.Seed)})
	var yc atomic.Uint64
	yield := func() {
		if yc.Add(1)%11 == 0 {
			time.Sleep(20 * time.Microsecond)
		} else {
			runtime.Gosched()
		}
	}
	w, err := newWorld(r, sink, yield)
	if err != nil {
		r.Inconclusive("cannot build the stack: " + err.Error())
		return
	}
	per := r.N(200, 5000)
	total := workers * per
	cases := make([]*caseSpec, total)
	rngs := make([]*rand.Rand, total)
	for i := range cases {
		cases[i], rngs[i] = randomCase(w, r, "conc", i)
	}
	results := make([]*judged, total)
	var wg sync.WaitGroup
	start := make(chan struct{})
	for g := 0; g < workers; g++ {
		wg.Add(1)
		go func(g int) {
			defer wg.Done()
			<-start
			for i := g; i < total; i += workers {
				results[i] = w.run(cases[i], rngs[i])
			}
		}(g)
	}
	close(start)
	wg.Wait()
	r.Bucket("p1.concurrent_cases", int64(total))
	r.Extra("concurrent_workers", workers)

	// End to end: the file must hold exactly the entries the stack logged, in
	// the documented format, and nothing about requests that must not be logged.
	exp := map[string]*lineExp{}
	byID := map[string]*judged{}
	for _, j := range results {
		byID[j.id.String()] = j
		for _, e := range j.entries {
			exp[e.RequestID.String()] = docLine(e)
		}
	}
	if r.BucketGet("p1.sink_errors") > 0 {
		r.Inconclusive("the file sink returned errors during the end-to-end phase (environment?)")
		return
	}
	parsed := checkFile(r, "e2e", path, exp)
	for u, obj := range parsed {
		j := byID[u]
		if j == nil {
			continue
		}
		c := j.c
		w := map[string]any{"case": c, "line": obj}
		switch {
		case c.Drop != "":
			r.Violation("e2e:dropped-in-file:"+c.Drop, "the log file holds a line for a dropped / access-blocked query", w)
		case !c.Attributed:
			r.Violation("e2e:anon-in-file:"+c.AC, "the log file holds a line for a query not attributed to a profile", w)
		case !c.Prof.QL:
			r.Violation("e2e:qlog-disabled-in-file", "the log file holds a line for a profile with query logging disabled", w)
		default:
			_, hasIP := obj["ip"]
			if hasIP && !c.Prof.IPLog {
				r.Violation("e2e:ip-in-file-without-optin", "a line of a profile with IP logging disabled holds the client address", w)
			} else if !hasIP && c.Prof.IPLog {
				r.Violation("e2e:field:ip", "a line of a profile with IP logging enabled lacks the client address", w)
			}
			if n, _ := obj["n"].(string); !strings.EqualFold(n, c.Name) {
				r.Violation("e2e:field:n", "a line does not carry the name of its own request", w)
			}
			if rc, _ := obj["r"].(json.Number); rc.String() != fmt.Sprint(j.rcode) {
				w["rcode_received_by_client"] = j.rcode
				r.Violation("e2e:field:r", "a line does not carry the response code that the client received", w)
			}
			if j.rcode > 0xF {
				r.Bucket("e2e.ext_rcode_lines_checked", 1)
			}
			if b, _ := obj["b"].(string); b != c.Prof.ID {
				r.Violation("e2e:field:b", "a line does not carry the profile of its own request", w)
			}
			r.Bucket("e2e.lines_attributed_to_case", 1)
		}
	}
	_ = os.Remove(path)
}

// ---------------------------------------------------------------------------
// Part 2: file integrity under concurrent writers
// ---------------------------------------------------------------------------

type fsEntrySpec struct {
	Writer, Index int
	ReqK, RespK   string
	RuleClass     string
	IP            bool
}

var respKindsFS = []string{kNone, kAllowed, kBlocked, kModResp}
var ruleClasses = []string{"plain", "long-ascii", "long-unicode", "quotes", "newlines", "html", "line-sep", "control", "empty", "service-id"}
var fsCountries = []geoip.Country{"", "US", "DE", "XK", "QN", "CY", "AU"}
var fsProtos = []agd.Protocol{agd.ProtoDoH, agd.ProtoDoQ, agd.ProtoDoT, agd.ProtoDNS, agd.ProtoDNSCrypt}

func ruleOf(rng *rand.Rand, class string, uniq string) string {
	switch class {
	case "plain":
		return "||" + uniq + ".example^"
	case "long-ascii":
		return "||" + uniq + "^" + strings.Repeat("a", 1024-len(uniq)-3)
	case "long-unicode":
		return uniq + strings.Repeat("𝔘ж語", (1024-len(uniq))/3)
	case "quotes":
		return `||` + uniq + `^$dnsrewrite="a\"b\\c",'x'` + "`"
	case "newlines":
		return "||" + uniq + "^\n{\"u\":\"forged\"}\r\n\ttab"
	case "html":
		return "||" + uniq + "^<script>&amp;</script>"
	case "line-sep":
		return "||" + uniq + "^\u2028\u2029\u0085"
	case "control":
		return "||" + uniq + "^\x00\x01\x1f\x7f\b\f"
	case "empty":
		return ""
	default:
		return "svc_" + uniq
	}
}

func resultOf(kind, list, rule string) filter.Result {
	switch kind {
	case kAllowed:
		return &filter.ResultAllowed{List: filter.ID(list), Rule: filter.RuleText(rule)}
	case kBlocked:
		return &filter.ResultBlocked{List: filter.ID(list), Rule: filter.RuleText(rule)}
	case kModResp:
		return &filter.ResultModifiedResponse{List: filter.ID(list), Rule: filter.RuleText(rule)}
	case kModReq:
		return &filter.ResultModifiedRequest{List: filter.ID(list), Rule: filter.RuleText(rule)}
	}
	return nil
}

func fsEntry(r *vkit.Run, round, wr, j int) (*querylog.Entry, *fsEntrySpec) {
	rng := r.Rand(fmt.Sprintf("fs%d", round), wr*100000+j)
	k := wr*7 + j
	sp := &fsEntrySpec{Writer: wr, Index: j, ReqK: reqKinds[k%len(reqKinds)], RespK: respKindsFS[(k/len(reqKinds))%len(respKindsFS)],
		RuleClass: ruleClasses[(k/(len(reqKinds)*len(respKindsFS)))%len(ruleClasses)], IP: rng.IntN(2) == 0}
	uniq := fmt.Sprintf("r%dw%02dj%05d", round, wr, j)
	e := &querylog.Entry{}
	// Unique request ID: position first, random rest.
	e.RequestID[0], e.RequestID[1], e.RequestID[2], e.RequestID[3] = byte(round), byte(wr), byte(j>>8), byte(j)
	for i := 4; i < len(e.RequestID); i++ {
		e.RequestID[i] = byte(rng.IntN(256))
	}
	list := func() string {
		if rng.IntN(8) == 0 {
			return ""
		}
		return pickList(rng)
	}
	e.RequestResult = resultOf(sp.ReqK, list(), ruleOf(rng, sp.RuleClass, uniq))
	e.ResponseResult = resultOf(sp.RespK, list(), ruleOf(rng, ruleClasses[rng.IntN(len(ruleClasses))], uniq+"resp"))
	e.Time = time.UnixMilli(1_600_000_000_000 + rng.Int64N(400_000_000_000)).Add(time.Duration(rng.IntN(1_000_000)))
	switch rng.IntN(4) {
	case 0:
		e.ProfileID, e.DeviceID = agd.ProfileID(fmt.Sprintf("p%07d", rng.IntN(10_000_000))), agd.DeviceID(fmt.Sprintf("d%07d", rng.IntN(10_000_000)))
	case 1:
		e.ProfileID, e.DeviceID = agd.ProfileID(fmt.Sprintf(`p"%d\`, rng.IntN(1000))), agd.DeviceID(fmt.Sprintf("d-%d", rng.IntN(1000)))
	case 2:
		e.ProfileID, e.DeviceID = "", ""
	default:
		e.ProfileID, e.DeviceID = agd.ProfileID(fmt.Sprintf("w%dj%d", wr, j)), agd.DeviceID(fmt.Sprintf("auto%04d", rng.IntN(10000)))
	}
	e.ClientCountry = fsCountries[rng.IntN(len(fsCountries))]
	e.ResponseCountry = fsCountries[rng.IntN(len(fsCountries))]
	switch rng.IntN(4) {
	case 0:
		e.DomainFQDN = uniq + "." + strings.Repeat("l"+strings.Repeat("o", 50)+"ng.", 3) + "example."
	case 1:
		e.DomainFQDN = "MiXeD-" + uniq + `.ex\.am\"ple\032x.org.`
	case 2:
		e.DomainFQDN = "."
	default:
		e.DomainFQDN = uniq + ".example.org."
	}
	e.Elapsed = time.Duration(rng.Int64N(int64(90 * time.Second)))
	if rng.IntN(4) == 0 {
		e.Elapsed = time.Duration(rng.IntN(2_000_000))
	}
	if rng.IntN(3) != 0 {
		e.ClientASN = geoip.ASN(rng.Uint32())
	}
	e.RequestType = uint16(rng.IntN(65536))
	if rng.IntN(2) == 0 {
		e.RequestType = qtypes[rng.IntN(len(qtypes))]
	}
	e.ResponseCode = dnsmsg.RCode([]int{0, 0, 2, 3, 5, 9, 16, 23, 0xff, rng.IntN(4096)}[rng.IntN(10)])
	e.Protocol = fsProtos[rng.IntN(len(fsProtos))]
	e.DNSSEC = rng.IntN(2) == 0
	if sp.IP {
		switch rng.IntN(3) {
		case 0:
			e.RemoteIP = netip.AddrFrom4([4]byte{byte(1 + rng.IntN(223)), byte(rng.IntN(256)), byte(rng.IntN(256)), byte(rng.IntN(256))})
		case 1:
			a := netip.MustParseAddr("2001:db8::").As16()
			for i := 8; i < 16; i++ {
				a[i] = byte(rng.IntN(256))
			}
			e.RemoteIP = netip.AddrFrom16(a)
		default:
			e.RemoteIP = netip.MustParseAddr("0.0.0.0")
		}
	}
	return e, sp
}

func part2(t *testing.T, r *vkit.Run) {
	rounds := r.N(3, 20)
	per := r.N(200, 1000)
	for round := 0; round < rounds; round++ {
		path := filepath.Join(scratch(t), fmt.Sprintf("c15-fs-%d.jsonl", round))
		_ = os.Remove(path)
		fs := querylog.NewFileSystem(&querylog.FileSystemConfig{Logger: stack.Logger(), Path: path, RandSeed: uint64(r.Seed) + uint64(round)})
		entries := make([][]*querylog.Entry, workers)
		exp := map[string]*lineExp{}
		for wr := 0; wr < workers; wr++ {
			for j := 0; j < per; j++ {
				e, sp := fsEntry(r, round, wr, j)
				entries[wr] = append(entries[wr], e)
				u := e.RequestID.String()
				if _, dup := exp[u]; dup {
					r.Inconclusive("harness generated a duplicate request ID")
				}
				exp[u] = docLine(e)
				r.Eval(fmt.Sprintf("fs|%s|%s|ip%d|%s", sp.ReqK, sp.RespK, b2i(sp.IP), sp.RuleClass), true)
				if round == 0 && wr == 0 && j%67 == 3 {
					r.Sample(map[string]any{"part": "file", "entry": viewEntry(e), "expected_line_strings": exp[u].S, "expected_line_numbers": exp[u].N})
				}
			}
		}
		var wg sync.WaitGroup
		start := make(chan struct{})
		var errMu sync.Mutex
		var errs []string
		var panics []string
		for wr := 0; wr < workers; wr++ {
			wg.Add(1)
			go func(wr int) {
				defer wg.Done()
				defer func() {
					if p := recover(); p != nil {
						errMu.Lock()
						panics = append(panics, fmt.Sprint(p))
						errMu.Unlock()
					}
				}()
				<-start
				ctx := context.Background()
				for j, e := range entries[wr] {
					if err := fs.Write(ctx, e); err != nil {
						errMu.Lock()
						errs = append(errs, err.Error())
						errMu.Unlock()
					}
					r.Bucket("fs.writes", 1)
					if round%2 == 1 && j%5 == 0 {
						runtime.Gosched()
					}
				}
			}(wr)
		}
		close(start)
		wg.Wait()
		if len(panics) > 0 {
			r.Violation("fs:panic", "FileSystem.Write panicked on a legal entry", map[string]any{"round": round, "panics": panics})
		}
		if len(errs) > 0 {
			r.Bucket("fs.write_errors", int64(len(errs)))
			r.Inconclusive(fmt.Sprintf("FileSystem.Write returned %d error(s), first: %s", len(errs), errs[0]))
			continue
		}
		checkFile(r, "fs", path, exp)
		_ = os.Remove(path)
	}
	r.Extra("file_rounds", rounds)
	r.Extra("file_writers", workers)
	r.Extra("file_entries_per_writer", per)
}

// ---------------------------------------------------------------------------

func TestCheck(t *testing.T) {
	r := vkit.Start(t, "C15", "exploration")
	defer r.Finish()
	r.Rule("Part 1: one case = one request injected into the real handler stack; class = (phase, attribution class " +
		"[how / whether the request is tied to a profile, or which drop applies], QueryLogEnabled, IPLogEnabled, scripted request-side " +
		"verdict, scripted response-side verdict); the sequential phase enumerates the cross product, the concurrent phase draws " +
		"32x200 cases from the seed.  Non-trivial = every class except (attributed, query log on, IP log on, no verdict), i.e. every " +
		"class where a gate must suppress something or the entry must carry a verdict.  Part 2: one case = one entry written by one of " +
		"32 concurrent writers to the real querylog.FileSystem; class = (request result kind, response result kind, IP set, rule-text class).  " +
		"Part 3: one case = one request through the real stack with the REAL filterstorage.Default; every domain is owned by one source " +
		"(one of 6 blocked services, a block / allow rule of one of 4 rule lists, a custom rule, nothing); class = (owner class incl. whether " +
		"the owning service is the only / first / a later one of the profile's blocked services or not enabled, number of enabled services, IP log); " +
		"non-trivial = every class but 'unowned'.  Part 4: one case = one request of a profile whose flags went through a real profiledb " +
		"full sync -> file cache -> new instance (restart); class = (before/after restart, QueryLogEnabled, IPLogEnabled); non-trivial = after " +
		"the restart and at least one flag off.")
	r.Assume("The scripted filter storage, access manager, profile access, rate limiters, GeoIP and profile database are harness fakes; " +
		"everything between the handler boundary and those interfaces is the repository's code (dnssvc.NewHandlers).")
	r.Assume("Ordinary request names avoid the special domains; a separate class of cases uses the names that the initial / pre-service / " +
		"pre-upstream middlewares treat specially (Android metric names, resolver.arpa, canary, private relay, prefetch, dnscheck, hash-prefix TXT); " +
		"for those answered before the main middleware no entry / bill is demanded, all other rules apply.  CHAOS-class debug requests are not used.")
	r.Assume("ResponseCountry and the DNSSEC flag are only checked for requests whose verdict left the upstream response untouched.")
	r.Assume("O_APPEND writes of one buffer to a regular file on the scratch file system are atomic (Linux).")

	func() {
		defer func() {
			if p := recover(); p != nil {
				r.Inconclusive(fmt.Sprintf("harness panic in part 1 (sequential): %v", p))
			}
		}()
		part1Sequential(t, r)
	}()
	func() {
		defer func() {
			if p := recover(); p != nil {
				r.Inconclusive(fmt.Sprintf("harness panic in part 1 (concurrent): %v", p))
			}
		}()
		part1Concurrent(t, r)
	}()
	func() {
		defer func() {
			if p := recover(); p != nil {
				r.Inconclusive(fmt.Sprintf("harness panic in part 2: %v", p))
			}
		}()
		part2(t, r)
	}()

	func() {
		defer func() {
			if p := recover(); p != nil {
				r.Inconclusive(fmt.Sprintf("harness panic in part 3: %v", p))
			}
		}()
		part3RealFilter(t, r)
	}()
	func() {
		defer func() {
			if p := recover(); p != nil {
				r.Inconclusive(fmt.Sprintf("harness panic in part 4: %v", p))
			}
		}()
		part4Restart(t, r)
	}()

	if n := r.BucketGet("p1.drop_class_answered"); n > 0 {
		r.Inconclusive(fmt.Sprintf("%d request(s) of a drop class were answered: the model's drop scripts did not take effect", n))
	}
	if n := r.BucketGet("p1.served_class_unanswered"); n > 0 {
		r.Inconclusive(fmt.Sprintf("%d request(s) of a served class got no response: the model's attribution scripts did not take effect", n))
	}
	// Coverage gates: the monitor must have seen every gate at work.
	r.Require("p1.cases", 1500)
	r.Require("p1.concurrent_cases", int64(workers*200))
	r.Require("p1.entries_checked", 800)
	r.Require("p1.bill_records", 1500)
	r.Require("p1.anon_served", 400)
	for _, ac := range anonACs {
		r.Require("p1.anon."+ac, 20)
	}
	r.Require("p1.qlog_suppressed", 500)
	r.Require("p1.ip_suppressed", 300)
	r.Require("p1.ip_logged", 300)
	r.Require("p1.response_country_checked", 50)
	for _, d := range dropACs {
		r.Require("p1."+d, 20)
	}
	for _, rk := range reqKinds {
		for _, pk := range respKinds {
			if rk == kModReq && pk != kNone {
				continue
			}
			r.Require("p1.verdict."+rk+"/"+pk, 20)
		}
	}
	for _, p := range []agd.Protocol{agd.ProtoDNS, agd.ProtoDoH, agd.ProtoDoQ, agd.ProtoDoT, agd.ProtoDNSCrypt} {
		r.Require(fmt.Sprintf("p1.proto.%d", p), 50)
	}
	// Part 3: the monitor must have seen entries whose rule comes from the
	// real filters, in particular from a blocked service that is not the first
	// one of its profile.
	for _, cl := range []string{"svc-later-of-several", "svc-first-of-several", "svc-only", "svc-not-enabled", "list-block",
		"list-block-not-enabled", "list-allow", "custom", "custom-of-other-profile", "unowned"} {
		r.Require("p3."+cl, 12)
	}
	// Part 4: entries and suppressions seen before and after the restart, also
	// for profiles changed or deleted while the full synchronisation was in flight.
	for _, ph := range []string{"before-restart", "after-restart"} {
		r.Require("p4."+ph+".ip_suppressed", 24)
		r.Require("p4."+ph+".ip_logged", 24)
		r.Require("p4."+ph+".qlog_suppressed", 48)
		r.Require("p4."+ph+".changed.qlog_suppressed", 12)
		r.Require("p4."+ph+".changed.ip_suppressed", 12)
		for _, mode := range []string{"dot-sni", "doh-path", "dns-dedicated"} {
			r.Require("p4."+ph+".deleted."+mode, 8)
		}
	}
	r.Require("p4.backend_full_syncs", 1)
	r.Require("p4.backend_incremental_syncs", 2)
	r.Require("p3.svc-later-of-several", 60)
	r.Require("p3.lines_checked", 400)
	// Specially-treated names: every kind must have been requested by attributed
	// clients, and entries of the Android metric names (which always pass the
	// main middleware under a replacement name) must have been compared.
	for _, k := range specialKinds {
		r.Require("p1.special."+k, 30)
	}
	for _, k := range androidKinds {
		r.Require("p1.special_entries_checked."+k, 25)
	}
	r.Require("p1.early_not_logged", 50)
	// Extended response codes (upper bits in the OPT record) must have reached
	// clients of logged requests.
	r.Require("p1.ext_rcode_entries_checked", 150)
	for _, rc := range extRcodes {
		r.Require(fmt.Sprintf("p1.ext_rcode.%d", rc), 5)
	}
	r.Require("e2e.ext_rcode_lines_checked", 100)
	r.Require("e2e.lines_matched", 800)
	r.Require("e2e.lines_attributed_to_case", 800)
	r.Require("fs.lines_matched", int64(workers*200*3))
	r.Require("fs.max_line_bytes", 2500)
}
