package c15

// Request names that the middlewares around the main middleware treat
// specially (internal/dnssvc/internal/{initial,preservice,preupstream}):
// Android DoT / DoH metric names (resolved under one shared replacement name),
// DDR and other resolver.arpa names, the Firefox canary, Apple Private Relay
// and Chrome prefetch names, dnscheck names and hash-prefix TXT names.
//
// Whatever the stack does with such a query internally, an entry that is
// written for it must still describe the client's own request: the logged name
// is the question name the client sent.  Names that are answered BEFORE the
// main middleware legitimately produce neither an entry nor a billing record;
// for those the "must be logged / billed" direction of the oracle is switched
// off (Early), every other rule stays in force.

import (
	"context"
	"fmt"
	"math/rand/v2"
	"strings"

	"github.com/AdguardTeam/AdGuardDNS/internal/agd"
	"github.com/AdguardTeam/AdGuardDNS/internal/filter"
	"github.com/miekg/dns"
)

var specialKinds = []string{"android-dot", "android-doh", "android-dot-sublabel", "ddr-svcb", "ddr-other-type", "resolver-arpa-sub",
	"firefox-canary", "apple-private-relay", "chrome-prefetch", "dnscheck", "hash-prefix-txt"}

// androidKinds are the kinds that always pass the main middleware, i.e. whose
// entries are compared with the request.
var androidKinds = []string{"android-dot", "android-doh", "android-dot-sublabel"}

// specialEligible are the attribution classes whose request names carry no
// scripting labels, so the name can be replaced by a special one.
var specialEligible = []string{"dot-sni", "doq-sni", "doh-path", "doh-userinfo", "dns-edns", "dns-linked", "dns-dedicated", "dot-humanid",
	"dot-nofilter-prof", "dot-noid", "doh-noid", "dns-noid", "dnscrypt-edns", "g2-dot-sni", "deleted-prof-dedicated"}

func isEligible(ac string) bool {
	for _, a := range specialEligible {
		if a == ac {
			return true
		}
	}
	return false
}

func mixCase(rng *rand.Rand, s string) string {
	b := []byte(s)
	for i, ch := range b {
		if 'a' <= ch && ch <= 'z' && rng.IntN(3) == 0 {
			b[i] = ch - 'a' + 'A'
		}
	}
	return string(b)
}

// blocksSpecial reports whether the profile of flag index idx has the
// BlockFirefoxCanary / BlockPrivateRelay / BlockChromePrefetch settings on.
func blocksSpecial(idx int) bool { return idx == 1 || idx == 2 }

// specialize replaces the name (and, where the special handling depends on it,
// the type) of c by one of kind.
func (w *world) specialize(c *caseSpec, rng *rand.Rand, kind string) {
	n := w.ctr.Add(1)
	c.Special = kind
	c.UX = ""
	blocked := c.Attributed && c.Prof != nil && blocksSpecial(c.Prof.Idx)
	addr := []uint16{dns.TypeA, dns.TypeAAAA}[rng.IntN(2)]
	switch kind {
	case "android-dot":
		c.Name = fmt.Sprintf("%08x-dnsotls-ds.metric.gstatic.com.", n)
	case "android-doh":
		c.Name = fmt.Sprintf("%06x-dnsohttps-ds.metric.gstatic.com.", n)
	case "android-dot-sublabel":
		c.Name = fmt.Sprintf("x%d.%08x-dnsotls-ds.metric.gstatic.com.", n, rng.Uint32())
	case "ddr-svcb":
		c.Name, c.QType, c.Early, c.Fixed = "_dns.resolver.arpa.", dns.TypeSVCB, true, true
	case "ddr-other-type":
		c.Name, c.QType, c.Early, c.Fixed = "_dns.resolver.arpa.", addr, true, true
	case "resolver-arpa-sub":
		c.Name, c.Early = fmt.Sprintf("q%d.resolver.arpa.", n), true
	case "firefox-canary":
		c.Name, c.QType, c.Early, c.Fixed = "use-application-dns.net.", addr, blocked, true
	case "apple-private-relay":
		c.Name = []string{"mask.icloud.com.", "mask-h2.icloud.com.", "mask-canary.icloud.com."}[rng.IntN(3)]
		c.QType, c.Early, c.Fixed = addr, blocked, true
	case "chrome-prefetch":
		c.Name, c.QType, c.Early, c.Fixed = "dns-tunnel-check.googlezip.net.", addr, blocked, true
	case "dnscheck":
		c.Name, c.QType, c.Early = fmt.Sprintf("%d-c15.dnscheck-c15.example.", n), addr, true
	case "hash-prefix-txt":
		c.Name, c.QType, c.Early = fmt.Sprintf("%04x.%04x%s.", rng.IntN(65536), n&0xffff, filter.GeneralTXTSuffix), dns.TypeTXT, true
	default:
		panic("unknown special kind " + kind)
	}
	if rng.IntN(2) == 0 {
		c.Name = mixCase(rng, c.Name)
	}
	if c.Fixed {
		// Several concurrent requests may carry this name, so it has no script.
		c.V = verdict{Req: kNone, Resp: kNone}
	}
}

// dnsCheck answers the names of the harness's dnscheck domain, as the real
// checker answers the names of its domains, and passes everything else on.
type dnsCheck struct{}

func (dnsCheck) Check(_ context.Context, req *dns.Msg, ri *agd.RequestInfo) (*dns.Msg, error) {
	if !strings.HasSuffix(ri.Host, ".dnscheck-c15.example") {
		return nil, nil
	}
	resp := &dns.Msg{}
	resp.SetReply(req)
	if ri.QType == dns.TypeA {
		resp.Answer = append(resp.Answer, &dns.A{Hdr: dns.RR_Header{Name: req.Question[0].Name, Rrtype: dns.TypeA, Class: dns.ClassINET, Ttl: 5},
			A: []byte{192, 0, 2, 53}})
	}
	return resp, nil
}

// hashMatcher matches every name under the general safe-browsing TXT suffix.
type hashMatcher struct{}

func (hashMatcher) MatchByPrefix(_ context.Context, host string) ([]string, bool, error) {
	if strings.HasSuffix(host, filter.GeneralTXTSuffix) {
		return []string{"0123456789abcdef0123456789abcdef0123456789abcdef0123456789abcdef"}, true, nil
	}
	return nil, false, nil
}
