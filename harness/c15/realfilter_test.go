package c15

// Part 3: the rule / list / verdict fields of an entry with the REAL filter
// storage (filterstorage.Default) behind the real middleware stack.
//
// Parts 1 and 2 script the filter, which checks that the main middleware and
// the file sink carry a verdict faithfully, but says nothing about whether the
// verdict that the real filters hand over names the rule that really matched
// the request.  Here every queried domain is owned by exactly one source by
// construction (one blocked service, one rule of one rule list, one custom rule
// of one profile, or nothing), so the expected "l"/"m" of the entry is known
// without modelling precedence: the source that owns the domain, if the profile
// has it enabled, otherwise no verdict.

import (
	"context"
	"encoding/json"
	"fmt"
	"math/rand/v2"
	"net/http"
	"net/http/httptest"
	"net/netip"
	"net/url"
	"os"
	"path/filepath"
	"strings"
	"sync"
	"testing"
	"time"

	"github.com/AdguardTeam/AdGuardDNS/internal/access"
	"github.com/AdguardTeam/AdGuardDNS/internal/agd"
	"github.com/AdguardTeam/AdGuardDNS/internal/agdcache"
	"github.com/AdguardTeam/AdGuardDNS/internal/agdnet"
	"github.com/AdguardTeam/AdGuardDNS/internal/agdpasswd"
	"github.com/AdguardTeam/AdGuardDNS/internal/agdtime"
	"github.com/AdguardTeam/AdGuardDNS/internal/dnsmsg"
	"github.com/AdguardTeam/AdGuardDNS/internal/filter"
	"github.com/AdguardTeam/AdGuardDNS/internal/filter/filterstorage"
	"github.com/AdguardTeam/AdGuardDNS/internal/geoip"
	"github.com/AdguardTeam/AdGuardDNS/internal/profiledb"
	"github.com/AdguardTeam/AdGuardDNS/internal/querylog"
	"github.com/AdguardTeam/AdGuardDNS/verif/stack"
	"github.com/AdguardTeam/AdGuardDNS/verif/vkit"
	"github.com/c2h5oh/datasize"
	"github.com/miekg/dns"
)

const (
	realZone     = "c15real.example"
	realServices = 6
	realLists    = 4
)

func realSvcID(j int) string   { return fmt.Sprintf("c15_service_%d", j+1) }
func realListID(i int) string  { return fmt.Sprintf("c15_list_%d", i+1) }
func realSvcRule(j int) string { return fmt.Sprintf("||svc%d.%s^", j+1, realZone) }
func realBlkRule(i int) string { return fmt.Sprintf("||blk.list%d.%s^", i+1, realZone) }
func realAlwRule(i int) string { return fmt.Sprintf("@@||alw.list%d.%s^", i+1, realZone) }
func realCustRule(p int) string {
	return fmt.Sprintf("||cust.prof%d.%s^", p, realZone)
}

type realErrColl struct {
	mu   sync.Mutex
	errs []string
}

func (c *realErrColl) Collect(_ context.Context, err error) {
	c.mu.Lock()
	c.errs = append(c.errs, err.Error())
	c.mu.Unlock()
}

// realProf is one profile of part 3.
type realProf struct {
	Idx      int    `json:"-"`
	ID       string `json:"id"`
	Dev      string `json:"device"`
	IPLog    bool   `json:"ip_log_enabled"`
	Services []int  `json:"blocked_services_in_configured_order"` // indexes into the service index
	Lists    []int  `json:"rule_lists"`
	Custom   bool   `json:"custom_rule"`
}

func (p *realProf) svcPos(j int) int {
	for k, s := range p.Services {
		if s == j {
			return k
		}
	}
	return -1
}

func (p *realProf) hasList(i int) bool {
	for _, l := range p.Lists {
		if l == i {
			return true
		}
	}
	return false
}

type realCase struct {
	Idx    int       `json:"idx"`
	Prof   *realProf `json:"profile"`
	Srv    string    `json:"server"`
	Name   string    `json:"name"`
	QType  uint16    `json:"qtype"`
	Owner  string    `json:"domain_owned_by"`
	Class  string    `json:"class"`
	Expect given     `json:"expected_request_result"`
}

func buildRealStorage(dir string) (st *filterstorage.Default, srv *httptest.Server, ec *realErrColl, err error) {
	files := map[string]string{}
	srv = httptest.NewServer(http.HandlerFunc(func(rw http.ResponseWriter, rq *http.Request) {
		body, ok := files[rq.URL.Path]
		if !ok {
			http.NotFound(rw, rq)
			return
		}
		_, _ = rw.Write([]byte(body))
	}))
	base, _ := url.Parse(srv.URL)
	u := func(p string) *url.URL { x := *base; x.Path = p; return &x }

	type idxF struct {
		DownloadURL string `json:"downloadUrl"`
		Key         string `json:"filterKey"`
	}
	var idx struct {
		Filters []idxF `json:"filters"`
	}
	for i := 0; i < realLists; i++ {
		p := "/list/" + realListID(i)
		files[p] = fmt.Sprintf("! %s\n||filler-list%d.vtest^\n%s\n%s\n", realListID(i), i, realBlkRule(i), realAlwRule(i))
		idx.Filters = append(idx.Filters, idxF{u(p).String(), realListID(i)})
	}
	b, _ := json.Marshal(idx)
	files["/filters.json"] = string(b)

	type svcF struct {
		ID    string   `json:"id"`
		Rules []string `json:"rules"`
	}
	var sidx struct {
		Svcs []svcF `json:"blocked_services"`
	}
	for j := 0; j < realServices; j++ {
		sidx.Svcs = append(sidx.Svcs, svcF{ID: realSvcID(j), Rules: []string{fmt.Sprintf("||filler-svc%d.vtest^", j), realSvcRule(j)}})
	}
	b, _ = json.Marshal(sidx)
	files["/services.json"] = string(b)

	const timeout = 30 * time.Second
	const maxSize = 4 * datasize.MB
	ec = &realErrColl{}
	st, err = filterstorage.New(&filterstorage.Config{
		BaseLogger: stack.Logger(), Logger: stack.Logger(),
		BlockedServices: &filterstorage.ConfigBlockedServices{IndexURL: u("/services.json"), IndexMaxSize: maxSize, IndexRefreshTimeout: timeout,
			IndexStaleness: time.Hour, ResultCacheCount: 100, ResultCacheEnabled: true, Enabled: true},
		Custom:     &filterstorage.ConfigCustom{CacheCount: 100},
		HashPrefix: &filterstorage.ConfigHashPrefix{},
		RuleLists: &filterstorage.ConfigRuleLists{IndexURL: u("/filters.json"), IndexMaxSize: maxSize, MaxSize: maxSize, IndexRefreshTimeout: timeout,
			IndexStaleness: time.Hour, RefreshTimeout: timeout, Staleness: time.Hour, ResultCacheCount: 100, ResultCacheEnabled: true},
		SafeSearchGeneral: &filterstorage.ConfigSafeSearch{}, SafeSearchYouTube: &filterstorage.ConfigSafeSearch{},
		CacheManager: agdcache.EmptyManager{}, Clock: agdtime.SystemClock{}, ErrColl: ec, Metrics: filter.EmptyMetrics{}, CacheDir: dir,
	})
	if err != nil {
		srv.Close()
		return nil, nil, nil, fmt.Errorf("filterstorage.New: %w", err)
	}
	ctx, cancel := context.WithTimeout(context.Background(), 2*time.Minute)
	defer cancel()
	if err = st.RefreshInitial(ctx); err != nil {
		srv.Close()
		return nil, nil, nil, fmt.Errorf("initial refresh: %w", err)
	}
	return st, srv, ec, nil
}

// genRealProfs returns the profiles of part 3: the blocked services of a
// profile are a seed-chosen ordered subset, so that every service is the
// first, a later, or the only enabled service of some profile.
func genRealProfs(r *vkit.Run, n int) []*realProf {
	var ps []*realProf
	for i := 0; i < n; i++ {
		rng := r.Rand("realprof", i)
		p := &realProf{Idx: i, ID: fmt.Sprintf("rp%02d", i), Dev: fmt.Sprintf("rd%02d", i), IPLog: i%2 == 0, Custom: i%3 != 2}
		nsvc := []int{2, 3, 1, realServices, 0, 4, 2, 5}[i%8]
		p.Services = rng.Perm(realServices)[:nsvc]
		p.Lists = rng.Perm(realLists)[:i%(realLists+1)]
		ps = append(ps, p)
	}
	return ps
}

func part3RealFilter(t *testing.T, r *vkit.Run) {
	dir := filepath.Join(scratch(t), "c15-real-cache")
	if err := os.MkdirAll(dir, 0o755); err != nil {
		r.Inconclusive("part 3: " + err.Error())
		return
	}
	storage, hsrv, ec, err := buildRealStorage(dir)
	if err != nil {
		r.Inconclusive("part 3: cannot build the real filter storage: " + err.Error())
		return
	}
	defer hsrv.Close()

	path := filepath.Join(scratch(t), "c15-real-querylog.jsonl")
	_ = os.Remove(path)
	sink := querylog.NewFileSystem(&querylog.FileSystemConfig{Logger: stack.Logger(), Path: path, RandSeed: uint64(r.Seed)})

	dot := stack.NewServer("real-dot", agd.ProtoDoT, netip.MustParseAddrPort("192.0.2.9:853"), false)
	doh := stack.NewServer("real-doh", agd.ProtoDoH, netip.MustParseAddrPort("192.0.2.9:443"), false)
	plain := stack.NewServer("real-dns", agd.ProtoDNS, netip.MustParseAddrPort("192.0.2.9:53"), false)
	servers := []*agd.Server{dot, doh, plain}
	grp := &agd.ServerGroup{DDR: stack.NewDDR(false), DeviceDomains: []string{devDomain}, Name: "greal", FilteringGroup: "fgreal",
		ProfilesEnabled: true, Servers: servers}
	fg := &agd.FilteringGroup{ID: "fgreal", FilterConfig: &filter.ConfigGroup{Parental: &filter.ConfigParental{},
		RuleList: &filter.ConfigRuleList{}, SafeBrowsing: &filter.ConfigSafeBrowsing{}}}

	profs := genRealProfs(r, r.N(16, 64))
	db := stack.NewMapDB()
	for _, p := range profs {
		fc := &filter.ConfigClient{
			Custom:       &filter.ConfigCustom{ID: p.ID, UpdateTime: time.Unix(1_700_000_000, 0)},
			Parental:     &filter.ConfigParental{Enabled: len(p.Services) > 0},
			RuleList:     &filter.ConfigRuleList{Enabled: len(p.Lists) > 0},
			SafeBrowsing: &filter.ConfigSafeBrowsing{},
		}
		for _, j := range p.Services {
			fc.Parental.BlockedServices = append(fc.Parental.BlockedServices, filter.BlockedServiceID(realSvcID(j)))
		}
		for _, i := range p.Lists {
			fc.RuleList.IDs = append(fc.RuleList.IDs, filter.ID(realListID(i)))
		}
		if p.Custom {
			fc.Custom.Enabled = true
			fc.Custom.Rules = []filter.RuleText{"||filler-cust.vtest^", filter.RuleText(realCustRule(p.Idx))}
		}
		db.Add(&agd.Profile{FilterConfig: fc, Access: access.EmptyProfile{}, BlockingMode: &dnsmsg.BlockingModeNullIP{},
			Ratelimiter: agd.GlobalRatelimiter{}, ID: agd.ProfileID(p.ID), FilteredResponseTTL: 10 * time.Second,
			FilteringEnabled: true, QueryLogEnabled: true, IPLogEnabled: p.IPLog}, mkDevice(p.Dev))
	}
	geo := stack.NewGeo()
	geo.AddNet(netip.MustParsePrefix("203.0.113.0/24"), &geoip.Location{Country: "DE", Continent: "EU", ASN: 1111})
	st, err := stack.New(&stack.Options{FilterStorage: storage, ProfileDB: db, GeoIP: geo, Upstream: upstream, QueryLog: sink,
		ServerGroups: []*agd.ServerGroup{grp}, FilteringGroups: map[agd.FilteringGroupID]*agd.FilteringGroup{"fgreal": fg}})
	if err != nil {
		r.Inconclusive("part 3: cannot build the stack: " + err.Error())
		return
	}

	// Case list: for every profile every owner, a few names each.
	type owner struct {
		kind string // svc, blk, alw, cust, none
		i    int
	}
	var owners []owner
	for j := 0; j < realServices; j++ {
		owners = append(owners, owner{"svc", j})
	}
	for i := 0; i < realLists; i++ {
		owners = append(owners, owner{"blk", i}, owner{"alw", i})
	}
	owners = append(owners, owner{"cust", 0}, owner{"cust-other", 0}, owner{"none", 0})

	var ctr int
	mk := func(rng *rand.Rand, p *realProf, o owner) *realCase {
		ctr++
		c := &realCase{Idx: ctr, Prof: p, QType: []uint16{dns.TypeA, dns.TypeAAAA, dns.TypeA, dns.TypeHTTPS}[rng.IntN(4)], Expect: given{Kind: kNone}}
		lbl := fmt.Sprintf("q%06d", ctr)
		if rng.IntN(3) == 0 {
			lbl += ".sub"
		}
		switch o.kind {
		case "svc":
			c.Name = fmt.Sprintf("%s.svc%d.%s.", lbl, o.i+1, realZone)
			c.Owner = "blocked service " + realSvcID(o.i)
			switch pos := p.svcPos(o.i); {
			case pos < 0:
				c.Class = "svc-not-enabled"
			case len(p.Services) == 1:
				c.Class = "svc-only"
			case pos == 0:
				c.Class = "svc-first-of-several"
			default:
				c.Class = "svc-later-of-several"
			}
			if p.svcPos(o.i) >= 0 {
				c.Expect = given{Kind: kBlocked, List: string(filter.IDBlockedService), Rule: realSvcID(o.i)}
			}
		case "blk":
			c.Name = fmt.Sprintf("%s.blk.list%d.%s.", lbl, o.i+1, realZone)
			c.Owner = "block rule of " + realListID(o.i)
			c.Class = "list-block-not-enabled"
			if p.hasList(o.i) {
				c.Class = "list-block"
				c.Expect = given{Kind: kBlocked, List: realListID(o.i), Rule: realBlkRule(o.i)}
			}
		case "alw":
			c.Name = fmt.Sprintf("%s.alw.list%d.%s.", lbl, o.i+1, realZone)
			c.Owner = "allow rule of " + realListID(o.i)
			c.Class = "list-allow-not-enabled"
			if p.hasList(o.i) {
				c.Class = "list-allow"
				c.Expect = given{Kind: kAllowed, List: realListID(o.i), Rule: realAlwRule(o.i)}
			}
		case "cust":
			c.Name = fmt.Sprintf("%s.cust.prof%d.%s.", lbl, p.Idx, realZone)
			c.Owner = "custom rule of " + p.ID
			c.Class = "custom-not-enabled"
			if p.Custom {
				c.Class = "custom"
				c.Expect = given{Kind: kBlocked, List: string(filter.IDCustom), Rule: realCustRule(p.Idx)}
			}
		case "cust-other":
			other := (p.Idx + 1) % len(profs)
			c.Name = fmt.Sprintf("%s.cust.prof%d.%s.", lbl, other, realZone)
			c.Owner = "custom rule of another profile"
			c.Class = "custom-of-other-profile"
		default:
			c.Name = fmt.Sprintf("%s.none.%s.", lbl, realZone)
			c.Owner = "nothing"
			c.Class = "unowned"
		}
		return c
	}
	var cases []*realCase
	reps := r.N(8, 24)
	for rep := 0; rep < reps; rep++ {
		for _, p := range profs {
			for oi, o := range owners {
				cases = append(cases, mk(r.Rand("real", (rep*1000+p.Idx)*100+oi), p, o))
			}
		}
	}
	// Deterministic shuffle, so that the result caches and pooled objects see
	// profiles and owners interleaved.
	r.Rand("realshuffle", 0).Shuffle(len(cases), func(a, b int) { cases[a], cases[b] = cases[b], cases[a] })

	exp := map[string]*lineExp{}
	byID := map[string]*realCase{}
	sampled := 0
	for n, c := range cases {
		rng := r.Rand("realreq", n)
		srv := servers[rng.IntN(len(servers))]
		c.Srv = string(srv.Name)
		m := stack.NewQuery(uint16(rng.IntN(65536)), c.Name, c.QType, dns.ClassINET)
		rq := &stack.Request{Server: srv, Group: grp, Msg: m, Local: netip.AddrPortFrom(netip.MustParseAddr("192.0.2.9"), 853),
			Remote: netip.AddrPortFrom(netip.AddrFrom4([4]byte{203, 0, 113, byte(1 + rng.IntN(250))}), uint16(1024+rng.IntN(60000)))}
		switch srv.Protocol {
		case agd.ProtoDoT:
			rq.TLSServerName = c.Prof.Dev + "." + devDomain
		case agd.ProtoDoH:
			rq.URL = &url.URL{Path: "/dns-query/" + c.Prof.Dev}
		default:
			m.SetEdns0(1232, false)
			o := m.IsEdns0()
			o.Option = append(o.Option, &dns.EDNS0_LOCAL{Code: 65074, Data: []byte(c.Prof.Dev)})
		}
		out := st.Serve(rq)
		logs := out.Trace.QueryLog
		r.Eval("p3|"+c.Class+fmt.Sprintf("|nsvc%d|ip%d", len(c.Prof.Services), b2i(c.Prof.IPLog)), c.Class != "unowned")
		r.Bucket("p3.cases", 1)
		wit := func(extra map[string]any) map[string]any {
			ev := []entryView{}
			for _, e := range logs {
				ev = append(ev, viewEntry(e))
			}
			w := map[string]any{"case": c, "request_id": out.ID.String(), "log_entries": ev, "serve_error": fmt.Sprint(out.Err),
				"errors_collected": out.Trace.Errors}
			for k, v := range extra {
				w[k] = v
			}
			return w
		}
		if out.Panic != nil {
			r.Violation("real:panic:serve", "the stack with the real filter storage panicked on a legal request", wit(map[string]any{"panic": fmt.Sprint(out.Panic)}))
			st.Forget(out)
			continue
		}
		if len(out.Responses) == 0 {
			r.Bucket("p3.unanswered", 1)
			st.Forget(out)
			continue
		}
		switch {
		case len(logs) == 0:
			r.Violation("real:missing-entry", "an answered query of a profile with query logging enabled produced no entry", wit(nil))
		case len(logs) > 1:
			r.Violation("real:duplicate-entry", "one query produced several query-log entries", wit(nil))
		}
		for _, e := range logs {
			bad := func(f string, want, got any) {
				r.Violation("real:entry-field:"+f+":"+c.Class, "query-log entry does not describe its own request (real filter storage)",
					wit(map[string]any{"field": f, "want": fmt.Sprint(want), "got": fmt.Sprint(got)}))
			}
			if e.RequestID != out.ID {
				bad("request-id", out.ID, e.RequestID)
			}
			if !strings.EqualFold(e.DomainFQDN, c.Name) {
				bad("name", c.Name, e.DomainFQDN)
			}
			if e.RequestType != c.QType {
				bad("qtype", c.QType, e.RequestType)
			}
			if int(e.ResponseCode) != out.Responses[0].Rcode {
				bad("rcode", out.Responses[0].Rcode, e.ResponseCode)
			}
			if string(e.ProfileID) != c.Prof.ID || string(e.DeviceID) != c.Prof.Dev {
				bad("profile-device", c.Prof.ID+"/"+c.Prof.Dev, string(e.ProfileID)+"/"+string(e.DeviceID))
			}
			if (e.RemoteIP != netip.Addr{}) != c.Prof.IPLog {
				r.Violation("real:ip-gate", "client address presence does not follow IPLogEnabled", wit(nil))
			}
			g := givenOf(e.RequestResult)
			switch {
			case g.Kind != c.Expect.Kind:
				bad("verdict", vkit.JSON(c.Expect), vkit.JSON(g))
			case g.List != c.Expect.List:
				bad("list", vkit.JSON(c.Expect), vkit.JSON(g))
			case g.Rule != c.Expect.Rule:
				bad("rule", vkit.JSON(c.Expect), vkit.JSON(g))
			}
			if gr := givenOf(e.ResponseResult); gr.Kind != kNone {
				bad("response-result", vkit.JSON(given{Kind: kNone}), vkit.JSON(gr))
			}
			exp[e.RequestID.String()] = docLine(e)
			r.Bucket("p3.entries_checked", 1)
			r.Bucket("p3."+c.Class, 1)
		}
		byID[out.ID.String()] = c
		if sampled < 2 && (c.Class == "svc-later-of-several" || c.Class == "list-allow") {
			sampled++
			r.Sample(wit(map[string]any{"part": "real filter storage"}))
		}
		st.Forget(out)
	}
	if n := r.BucketGet("p3.unanswered"); n > 0 {
		r.Inconclusive(fmt.Sprintf("part 3: %d request(s) got no response", n))
	}
	ec.mu.Lock()
	nerr := len(ec.errs)
	first := ""
	if nerr > 0 {
		first = ec.errs[0]
	}
	ec.mu.Unlock()
	if nerr > 0 {
		r.Inconclusive(fmt.Sprintf("part 3: the real filter storage reported %d error(s), first: %s", nerr, first))
	}

	// End to end: the l / m / f properties of the line of each request.
	parsed := checkFile(r, "real-e2e", path, exp)
	for u, obj := range parsed {
		c := byID[u]
		if c == nil {
			continue
		}
		code, list, rule := docResult(c.Expect, given{Kind: kNone})
		w := map[string]any{"case": c, "line": obj, "want_f": code, "want_l": list, "want_m": rule}
		gl, _ := obj["l"].(string)
		gm, _ := obj["m"].(string)
		gf, _ := obj["f"].(json.Number)
		if gf.String() != fmt.Sprint(code) {
			r.Violation("real-e2e:line:f:"+c.Class, "the action code of a line is not that of its own request", w)
		}
		if gl != list {
			r.Violation("real-e2e:line:l:"+c.Class, "the filter-list ID of a line is not the list that owns the requested domain", w)
		}
		if gm != rule {
			r.Violation("real-e2e:line:m:"+c.Class, "the rule / blocked-service ID of a line is not the one that owns the requested domain", w)
		}
		r.Bucket("p3.lines_checked", 1)
	}
	_ = os.Remove(path)
	r.Extra("real_filter_profiles", len(profs))
	r.Extra("real_filter_services", realServices)
	r.Extra("real_filter_rule_lists", realLists)
}

// ---------------------------------------------------------------------------
// Part 4: the logging flags / the attribution of a profile with the REAL
// profile database (profiledb.Default) behind the stack, across incremental
// synchronisations and a file-cache round trip (full synchronisation -> cache
// file -> new database instance that starts from the cache, i.e. a restart).
//
// The backend is a small model: every profile has a modification time; a full
// request (zero sync time) returns the snapshot and the snapshot time T0, an
// incremental request returns the profiles modified after the sync time it is
// GIVEN.  Some profiles change at T1 with T0 < T1 < local completion of the
// full synchronisation (T0 = call time - 10 s, T1 = call time - 5 s, so the
// order does not depend on scheduling): logging switched off / on, or the
// profile deleted (it still lists its device).  At the quiescent point after
// an instance's incremental synchronisation, queries must follow the backend's
// latest state.
// ---------------------------------------------------------------------------

type p4Prof struct {
	ID      string `json:"id"`
	Dev     string `json:"device"`
	Kind    string `json:"kind"` // static, changed-during-full-sync, deleted-during-full-sync
	QL      bool   `json:"query_log_enabled_latest"`
	IPLog   bool   `json:"ip_log_enabled_latest"`
	Deleted bool   `json:"deleted_latest"`
	WasQL   bool   `json:"query_log_enabled_in_snapshot"`
	WasIP   bool   `json:"ip_log_enabled_in_snapshot"`
	Dedic   string `json:"dedicated_ip"`

	dedic netip.Addr
}

type p4Item struct {
	prof *agd.Profile
	dev  *agd.Device
	mod  time.Time
}

type p4Call struct {
	Given time.Time `json:"sync_time_given"`
	Full  bool      `json:"full"`
	Profs int       `json:"profiles_returned"`
}

type p4Backend struct {
	mu       sync.Mutex
	items    map[string]*p4Item
	order    []string
	pending  []*p4Prof // changes that happen while the first full sync is in flight
	snapshot time.Time
	calls    []p4Call
}

func p4Profile(p *p4Prof, ql, ip, deleted bool) *agd.Profile {
	return &agd.Profile{
		FilterConfig: &filter.ConfigClient{Custom: &filter.ConfigCustom{ID: p.ID, UpdateTime: time.Unix(1_700_000_000, 0)},
			Parental: &filter.ConfigParental{}, RuleList: &filter.ConfigRuleList{}, SafeBrowsing: &filter.ConfigSafeBrowsing{}},
		Access: access.EmptyProfile{}, BlockingMode: &dnsmsg.BlockingModeNullIP{}, Ratelimiter: agd.GlobalRatelimiter{},
		ID: agd.ProfileID(p.ID), DeviceIDs: []agd.DeviceID{agd.DeviceID(p.Dev)}, FilteredResponseTTL: 10 * time.Second,
		FilteringEnabled: true, QueryLogEnabled: ql, IPLogEnabled: ip, Deleted: deleted,
	}
}

func (b *p4Backend) CreateAutoDevice(context.Context, *profiledb.StorageCreateAutoDeviceRequest) (*profiledb.StorageCreateAutoDeviceResponse, error) {
	return nil, fmt.Errorf("not supported")
}

func (b *p4Backend) Profiles(_ context.Context, req *profiledb.StorageProfilesRequest) (*profiledb.StorageProfilesResponse, error) {
	b.mu.Lock()
	defer b.mu.Unlock()
	now := time.Now()
	resp := &profiledb.StorageProfilesResponse{}
	full := req.SyncTime.IsZero()
	if full {
		// Snapshot taken at T0; the pending changes happen at T1, after the
		// snapshot but before the caller has finished its synchronisation.
		t0, t1 := now.Add(-10*time.Second), now.Add(-5*time.Second)
		if b.snapshot.IsZero() {
			b.snapshot = t0
		}
		resp.SyncTime = t0
		for _, id := range b.order {
			it := b.items[id]
			if !it.prof.Deleted {
				resp.Profiles = append(resp.Profiles, it.prof)
				resp.Devices = append(resp.Devices, it.dev)
			}
		}
		for _, p := range b.pending {
			it := b.items[p.ID]
			b.items[p.ID] = &p4Item{prof: p4Profile(p, p.QL, p.IPLog, p.Deleted), dev: it.dev, mod: t1}
		}
		b.pending = nil
	} else {
		resp.SyncTime = now
		for _, id := range b.order {
			if it := b.items[id]; it.mod.After(req.SyncTime) {
				resp.Profiles = append(resp.Profiles, it.prof)
				resp.Devices = append(resp.Devices, it.dev)
			}
		}
	}
	b.calls = append(b.calls, p4Call{Given: req.SyncTime, Full: full, Profs: len(resp.Profiles)})
	return resp, nil
}

func part4Restart(t *testing.T, r *vkit.Run) {
	cache := filepath.Join(scratch(t), "c15-profiles.pb")
	_ = os.Remove(cache)
	be := &p4Backend{items: map[string]*p4Item{}}
	var fps []*p4Prof
	long := time.Now().Add(-24 * time.Hour)
	add := func(p *p4Prof) {
		p.dedic = netip.AddrFrom4([4]byte{192, 0, 2, byte(70 + len(fps))})
		p.Dedic = p.dedic.String()
		fps = append(fps, p)
		be.order = append(be.order, p.ID)
		be.items[p.ID] = &p4Item{prof: p4Profile(p, p.WasQL, p.WasIP, false), mod: long,
			dev: &agd.Device{ID: agd.DeviceID(p.Dev), Name: agd.DeviceName("dev " + p.Dev), DedicatedIPs: []netip.Addr{p.dedic},
				Auth: &agd.AuthSettings{PasswordHash: agdpasswd.AllowAuthenticator{}}, FilteringEnabled: true}}
		if p.Kind != "static" {
			be.pending = append(be.pending, p)
		}
	}
	for _, ql := range []bool{true, false} {
		for _, ip := range []bool{true, false} {
			for k := 0; k < 3; k++ {
				add(&p4Prof{ID: fmt.Sprintf("r%d%d%d", b2i(ql), b2i(ip), k), Dev: fmt.Sprintf("rd%d%d%d", b2i(ql), b2i(ip), k),
					Kind: "static", QL: ql, IPLog: ip, WasQL: ql, WasIP: ip})
			}
		}
	}
	for k := 0; k < 2; k++ {
		const ch = "changed-during-full-sync"
		add(&p4Prof{ID: fmt.Sprintf("rcq%d", k), Dev: fmt.Sprintf("rdcq%d", k), Kind: ch, WasQL: true, WasIP: true, QL: false, IPLog: true})
		add(&p4Prof{ID: fmt.Sprintf("rci%d", k), Dev: fmt.Sprintf("rdci%d", k), Kind: ch, WasQL: true, WasIP: true, QL: true, IPLog: false})
		add(&p4Prof{ID: fmt.Sprintf("rcn%d", k), Dev: fmt.Sprintf("rdcn%d", k), Kind: ch, WasQL: false, WasIP: false, QL: true, IPLog: true})
		add(&p4Prof{ID: fmt.Sprintf("rdl%d", k), Dev: fmt.Sprintf("rddl%d", k), Kind: "deleted-during-full-sync", WasQL: true, WasIP: true,
			QL: true, IPLog: true, Deleted: true})
	}

	ec := &realErrColl{}
	newDB := func() (*profiledb.Default, error) {
		return profiledb.New(&profiledb.Config{Logger: stack.Logger(), Storage: be, ErrColl: ec, Metrics: profiledb.EmptyMetrics{},
			CacheFilePath: cache, FullSyncIvl: 1000 * time.Hour, FullSyncRetryIvl: 1000 * time.Hour, ResponseSizeEstimate: datasize.KB})
	}
	ctx, cancel := context.WithTimeout(context.Background(), time.Minute)
	defer cancel()
	db1, err := newDB()
	if err == nil {
		err = db1.Refresh(ctx) // full synchronisation, writes the cache file
	}
	if err != nil {
		r.Inconclusive("part 4: first database: " + err.Error())
		return
	}
	if st, serr := os.Stat(cache); serr != nil || st.Size() == 0 {
		r.Inconclusive("part 4: the full synchronisation wrote no cache file")
		return
	}
	// "Restart": a new instance that starts from the cache.  Both instances then
	// run one incremental synchronisation.
	db2, err := newDB()
	if err == nil {
		err = db1.Refresh(ctx)
	}
	if err == nil {
		err = db2.Refresh(ctx)
	}
	if err != nil {
		r.Inconclusive("part 4: incremental synchronisation: " + err.Error())
		return
	}
	be.mu.Lock()
	calls := append([]p4Call(nil), be.calls...)
	be.mu.Unlock()
	nFull := 0
	for _, c := range calls {
		if c.Full {
			nFull++
		}
	}
	r.Bucket("p4.backend_full_syncs", int64(nFull))
	r.Bucket("p4.backend_incremental_syncs", int64(len(calls)-nFull))
	if nFull != 1 || len(calls) != 3 {
		r.Inconclusive(fmt.Sprintf("part 4: expected one full and two incremental synchronisations, the backend saw %s", vkit.JSON(calls)))
		return
	}

	for _, ph := range []struct {
		name string
		db   profiledb.Interface
	}{{"before-restart", db1}, {"after-restart", db2}} {
		dot := stack.NewServer("rs-dot", agd.ProtoDoT, netip.MustParseAddrPort("192.0.2.11:853"), false)
		doh := stack.NewServer("rs-doh", agd.ProtoDoH, netip.MustParseAddrPort("192.0.2.11:443"), false)
		dnsif := stack.NewServer("rs-dnsif", agd.ProtoDNS, netip.MustParseAddrPort("192.0.2.64:53"), false)
		dnsif.SetBindData([]*agd.ServerBindData{{PrefixAddr: &agdnet.PrefixNetAddr{
			Prefix: netip.MustParsePrefix("192.0.2.64/26"), Net: "udp", Port: 53}}})
		grp := &agd.ServerGroup{DDR: stack.NewDDR(false), DeviceDomains: []string{devDomain}, Name: "grs", FilteringGroup: "fgrs",
			ProfilesEnabled: true, Servers: []*agd.Server{dot, doh, dnsif}}
		fg := &agd.FilteringGroup{ID: "fgrs", FilterConfig: &filter.ConfigGroup{Parental: &filter.ConfigParental{},
			RuleList: &filter.ConfigRuleList{}, SafeBrowsing: &filter.ConfigSafeBrowsing{}}}
		st, serr := stack.New(&stack.Options{FilterStorage: &scriptStorage{}, ProfileDB: ph.db, Upstream: upstream,
			ServerGroups: []*agd.ServerGroup{grp}, FilteringGroups: map[agd.FilteringGroupID]*agd.FilteringGroup{"fgrs": fg}})
		if serr != nil {
			r.Inconclusive("part 4: cannot build the stack: " + serr.Error())
			return
		}
		n := 0
		for rep := 0; rep < r.N(4, 16); rep++ {
			for _, p := range fps {
				for _, mode := range []string{"dot-sni", "doh-path", "dns-dedicated"} {
					n++
					rng := r.Rand("restart-"+ph.name, n)
					name := fmt.Sprintf("q%05d.%s.restart.c15.example.", n, ph.name)
					remote := netip.AddrPortFrom(netip.AddrFrom4([4]byte{203, 0, 113, byte(1 + rng.IntN(250))}), uint16(1024+rng.IntN(60000)))
					rq := &stack.Request{Group: grp, Msg: stack.NewQuery(uint16(rng.IntN(65536)), name, dns.TypeA, dns.ClassINET), Remote: remote}
					switch mode {
					case "dot-sni":
						rq.Server, rq.Local, rq.TLSServerName = dot, netip.MustParseAddrPort("192.0.2.11:853"), p.Dev+"."+devDomain
					case "doh-path":
						rq.Server, rq.Local, rq.URL = doh, netip.MustParseAddrPort("192.0.2.11:443"), &url.URL{Path: "/dns-query/" + p.Dev}
					default:
						rq.Server, rq.Local = dnsif, netip.AddrPortFrom(p.dedic, 53)
					}
					out := st.Serve(rq)
					logs, bills := out.Trace.QueryLog, out.Trace.Bill
					r.Eval(fmt.Sprintf("p4|%s|%s|%s|ql%d|ip%d|del%d", ph.name, p.Kind, mode, b2i(p.QL), b2i(p.IPLog), b2i(p.Deleted)),
						p.Kind != "static" || (ph.name == "after-restart" && !(p.QL && p.IPLog)))
					r.Bucket("p4."+ph.name+".cases", 1)
					ev := []entryView{}
					for _, e := range logs {
						ev = append(ev, viewEntry(e))
					}
					w := map[string]any{"phase": ph.name, "profile_on_backend": p, "identified_by": mode, "server": string(rq.Server.Name),
						"name": name, "remote": remote.String(), "local": rq.Local.String(), "log_entries": ev, "bill_records": len(bills),
						"responses": len(out.Responses), "serve_error": fmt.Sprint(out.Err), "backend_calls": calls}
					key := "restart:" + ph.name + ":"
					sfx := ""
					if p.Kind != "static" {
						sfx = ":" + p.Kind
					}
					if out.Panic != nil || len(out.Responses) == 0 {
						r.Bucket("p4.not_attributed_or_unanswered", 1)
						st.Forget(out)
						continue
					}
					if p.Deleted {
						r.Bucket("p4."+ph.name+".deleted."+mode, 1)
						if len(logs) > 0 {
							r.Violation(key+"deleted-profile-logged:"+mode, "a query identified with a device of a deleted profile produced a query-log entry", w)
						}
						if len(bills) > 0 {
							r.Violation(key+"deleted-profile-billed:"+mode, "a query identified with a device of a deleted profile produced a billing record", w)
						}
						st.Forget(out)
						continue
					}
					if len(bills) != 1 {
						// Not attributed: the model's premise does not hold.
						r.Bucket("p4.not_attributed_or_unanswered", 1)
						st.Forget(out)
						continue
					}
					switch {
					case !p.QL && len(logs) > 0:
						r.Violation(key+"qlog-disabled-logged"+sfx, "a query of a profile whose latest synchronised state has query logging disabled produced an entry", w)
					case p.QL && len(logs) == 0:
						r.Violation(key+"missing-entry"+sfx, "a query of a profile whose latest synchronised state has query logging enabled produced no entry", w)
					}
					if !p.QL {
						r.Bucket("p4."+ph.name+".qlog_suppressed", 1)
						if p.Kind != "static" {
							r.Bucket("p4."+ph.name+".changed.qlog_suppressed", 1)
						}
					}
					for _, e := range logs {
						hasIP := e.RemoteIP != netip.Addr{}
						switch {
						case hasIP && !p.IPLog:
							r.Violation(key+"ip-logged-without-optin"+sfx, "entry of a profile whose latest synchronised state has IP logging disabled contains the client address", w)
						case !hasIP && p.IPLog:
							r.Violation(key+"ip-missing"+sfx, "entry of a profile whose latest synchronised state has IP logging enabled lacks the client address", w)
						case hasIP && e.RemoteIP.Unmap() != remote.Addr():
							r.Violation(key+"entry-field:remote-ip", "entry carries another client address", w)
						}
						if string(e.ProfileID) != p.ID || string(e.DeviceID) != p.Dev {
							r.Violation(key+"entry-field:profile-device", "entry names another profile / device", w)
						}
						if p.IPLog {
							r.Bucket("p4."+ph.name+".ip_logged", 1)
						} else {
							r.Bucket("p4."+ph.name+".ip_suppressed", 1)
							if p.Kind != "static" {
								r.Bucket("p4."+ph.name+".changed.ip_suppressed", 1)
							}
						}
					}
					st.Forget(out)
				}
			}
		}
	}
	if n := r.BucketGet("p4.not_attributed_or_unanswered"); n > 0 {
		r.Inconclusive(fmt.Sprintf("part 4: %d request(s) were not attributed to their profile or not answered", n))
	}
	ec.mu.Lock()
	if len(ec.errs) > 0 {
		r.Inconclusive("part 4: the profile database reported errors, first: " + ec.errs[0])
	}
	ec.mu.Unlock()
	_ = os.Remove(cache)
}
