package c15

// Part 3: the rule / list / verdict fields of an entry with the REAL filter
// storage (filterstorage.Default) behind the real middleware stack.
//
// Parts 1 and 2 script the filter, which checks that the main middleware and
// the file sink carry a verdict faithfully, but says nothing about whether the
// verdict that the real filters hand over names the rule that really matched
// the request.  Here every queried domain is owned by exactly one source by
// construction (one blocked service, one rule of one rule list, one custom rule
// of one profile, or nothing), so the expected "l"/"m" of the entry is known
// without modelling precedence: the source that owns the domain, if the profile
// has it enabled, otherwise no verdict.

import (
	"context"
	"encoding/json"
	"fmt"
	"math/rand/v2"
	"net/http"
	"net/http/httptest"
	"net/netip"
	"net/url"
	"os"
	"path/filepath"
	"strings"
	"sync"
	"testing"
	"time"

	"github.com/AdguardTeam/AdGuardDNS/internal/access"
	"github.com/AdguardTeam/AdGuardDNS/internal/agd"
	"github.com/AdguardTeam/AdGuardDNS/internal/agdcache"
	"github.com/AdguardTeam/AdGuardDNS/internal/agdpasswd"
	"github.com/AdguardTeam/AdGuardDNS/internal/agdtime"
	"github.com/AdguardTeam/AdGuardDNS/internal/dnsmsg"
	"github.com/AdguardTeam/AdGuardDNS/internal/filter"
	"github.com/AdguardTeam/AdGuardDNS/internal/filter/filterstorage"
	"github.com/AdguardTeam/AdGuardDNS/internal/geoip"
	"github.com/AdguardTeam/AdGuardDNS/internal/profiledb"
	"github.com/AdguardTeam/AdGuardDNS/internal/querylog"
	"github.com/AdguardTeam/AdGuardDNS/verif/stack"
	"github.com/AdguardTeam/AdGuardDNS/verif/vkit"
	"github.com/c2h5oh/datasize"
	"github.com/miekg/dns"
)

const (
	realZone     = "c15real.example"
	realServices = 6
	realLists    = 4
)

func realSvcID(j int) string   { return fmt.Sprintf("c15_service_%d", j+1) }
func realListID(i int) string  { return fmt.Sprintf("c15_list_%d", i+1) }
func realSvcRule(j int) string { return fmt.Sprintf("||svc%d.%s^", j+1, realZone) }
func realBlkRule(i int) string { return fmt.Sprintf("||blk.list%d.%s^", i+1, realZone) }
func realAlwRule(i int) string { return fmt.Sprintf("@@||alw.list%d.%s^", i+1, realZone) }
func realCustRule(p int) string {
	return fmt.Sprintf("||cust.prof%d.%s^", p, realZone)
}

type realErrColl struct {
	mu   sync.Mutex
	errs []string
}

func (c *realErrColl) Collect(_ context.Context, err error) {
	c.mu.Lock()
	c.errs = append(c.errs, err.Error())
	c.mu.Unlock()
}

// realProf is one profile of part 3.
type realProf struct {
	Idx      int    `json:"-"`
	ID       string `json:"id"`
	Dev      string `json:"device"`
	IPLog    bool   `json:"ip_log_enabled"`
	Services []int  `json:"blocked_services_in_configured_order"` // indexes into the service index
	Lists    []int  `json:"rule_lists"`
	Custom   bool   `json:"custom_rule"`
}

func (p *realProf) svcPos(j int) int {
	for k, s := range p.Services {
		if s == j {
			return k
		}
	}
	return -1
}

func (p *realProf) hasList(i int) bool {
	for _, l := range p.Lists {
		if l == i {
			return true
		}
	}
	return false
}

type realCase struct {
	Idx    int       `json:"idx"`
	Prof   *realProf `json:"profile"`
	Srv    string    `json:"server"`
	Name   string    `json:"name"`
	QType  uint16    `json:"qtype"`
	Owner  string    `json:"domain_owned_by"`
	Class  string    `json:"class"`
	Expect given     `json:"expected_request_result"`
}

func buildRealStorage(dir string) (st *filterstorage.Default, srv *httptest.Server, ec *realErrColl, err error) {
	files := map[string]string{}
	srv = httptest.NewServer(http.HandlerFunc(func(rw http.ResponseWriter, rq *http.Request) {
		body, ok := files[rq.URL.Path]
		if !ok {
			http.NotFound(rw, rq)
			return
		}
		_, _ = rw.Write([]byte(body))
	}))
	base, _ := url.Parse(srv.URL)
	u := func(p string) *url.URL { x := *base; x.Path = p; return &x }

	type idxF struct {
		DownloadURL string `json:"downloadUrl"`
		Key         string `json:"filterKey"`
	}
	var idx struct {
		Filters []idxF `json:"filters"`
	}
	for i := 0; i < realLists; i++ {
		p := "/list/" + realListID(i)
		files[p] = fmt.Sprintf("! %s\n||filler-list%d.vtest^\n%s\n%s\n", realListID(i), i, realBlkRule(i), realAlwRule(i))
		idx.Filters = append(idx.Filters, idxF{u(p).String(), realListID(i)})
	}
	b, _ := json.Marshal(idx)
	files["/filters.json"] = string(b)

	type svcF struct {
		ID    string   `json:"id"`
		Rules []string `json:"rules"`
	}
	var sidx struct {
		Svcs []svcF `json:"blocked_services"`
	}
	for j := 0; j < realServices; j++ {
		sidx.Svcs = append(sidx.Svcs, svcF{ID: realSvcID(j), Rules: []string{fmt.Sprintf("||filler-svc%d.vtest^", j), realSvcRule(j)}})
	}
	b, _ = json.Marshal(sidx)
	files["/services.json"] = string(b)

	const timeout = 30 * time.Second
	const maxSize = 4 * datasize.MB
	ec = &realErrColl{}
	st, err = filterstorage.New(&filterstorage.Config{
		BaseLogger: stack.Logger(), Logger: stack.Logger(),
		BlockedServices: &filterstorage.ConfigBlockedServices{IndexURL: u("/services.json"), IndexMaxSize: maxSize, IndexRefreshTimeout: timeout,
			IndexStaleness: time.Hour, ResultCacheCount: 100, ResultCacheEnabled: true, Enabled: true},
		Custom:     &filterstorage.ConfigCustom{CacheCount: 100},
		HashPrefix: &filterstorage.ConfigHashPrefix{},
		RuleLists: &filterstorage.ConfigRuleLists{IndexURL: u("/filters.json"), IndexMaxSize: maxSize, MaxSize: maxSize, IndexRefreshTimeout: timeout,
			IndexStaleness: time.Hour, RefreshTimeout: timeout, Staleness: time.Hour, ResultCacheCount: 100, ResultCacheEnabled: true},
		SafeSearchGeneral: &filterstorage.ConfigSafeSearch{}, SafeSearchYouTube: &filterstorage.ConfigSafeSearch{},
		CacheManager: agdcache.EmptyManager{}, Clock: agdtime.SystemClock{}, ErrColl: ec, Metrics: filter.EmptyMetrics{}, CacheDir: dir,
	})
	if err != nil {
		srv.Close()
		return nil, nil, nil, fmt.Errorf("filterstorage.New: %w", err)
	}
	ctx, cancel := context.WithTimeout(context.Background(), 2*time.Minute)
	defer cancel()
	if err = st.RefreshInitial(ctx); err != nil {
		srv.Close()
		return nil, nil, nil, fmt.Errorf("initial refresh: %w", err)
	}
	return st, srv, ec, nil
}

// genRealProfs returns the profiles of part 3: the blocked services of a
// profile are a seed-chosen ordered subset, so that every service is the
// first, a later, or the only enabled service of some profile.
func genRealProfs(r *vkit.Run, n int) []*realProf {
	var ps []*realProf
	for i := 0; i < n; i++ {
		rng := r.Rand("realprof", i)
		p := &realProf{Idx: i, ID: fmt.Sprintf("rp%02d", i), Dev: fmt.Sprintf("rd%02d", i), IPLog: i%2 == 0, Custom: i%3 != 2}
		nsvc := []int{2, 3, 1, realServices, 0, 4, 2, 5}[i%8]
		p.Services = rng.Perm(realServices)[:nsvc]
		p.Lists = rng.Perm(realLists)[:i%(realLists+1)]
		ps = append(ps, p)
	}
	return ps
}

func part3RealFilter(t *testing.T, r *vkit.Run) {
	dir := filepath.Join(scratch(t), "c15-real-cache")
	if err := os.MkdirAll(dir, 0o755); err != nil {
		r.Inconclusive("part 3: " + err.Error())
		return
	}
	storage, hsrv, ec, err := buildRealStorage(dir)
	if err != nil {
		r.Inconclusive("part 3: cannot build the real filter storage: " + err.Error())
		return
	}
	defer hsrv.Close()

	path := filepath.Join(scratch(t), "c15-real-querylog.jsonl")
	_ = os.Remove(path)
	sink := querylog.NewFileSystem(&querylog.FileSystemConfig{Logger: stack.Logger(), Path: path, RandSeed: uint64(r.Seed)})

	dot := stack.NewServer("real-dot", agd.ProtoDoT, netip.MustParseAddrPort("192.0.2.9:853"), false)
	doh := stack.NewServer("real-doh", agd.ProtoDoH, netip.MustParseAddrPort("192.0.2.9:443"), false)
	plain := stack.NewServer("real-dns", agd.ProtoDNS, netip.MustParseAddrPort("192.0.2.9:53"), false)
	servers := []*agd.Server{dot, doh, plain}
	grp := &agd.ServerGroup{DDR: stack.NewDDR(false), DeviceDomains: []string{devDomain}, Name: "greal", FilteringGroup: "fgreal",
		ProfilesEnabled: true, Servers: servers}
	fg := &agd.FilteringGroup{ID: "fgreal", FilterConfig: &filter.ConfigGroup{Parental: &filter.ConfigParental{},
		RuleList: &filter.ConfigRuleList{}, SafeBrowsing: &filter.ConfigSafeBrowsing{}}}

	profs := genRealProfs(r, r.N(16, 64))
	db := stack.NewMapDB()
	for _, p := range profs {
		fc := &filter.ConfigClient{
			Custom:       &filter.ConfigCustom{ID: p.ID, UpdateTime: time.Unix(1_700_000_000, 0)},
			Parental:     &filter.ConfigParental{Enabled: len(p.Services) > 0},
			RuleList:     &filter.ConfigRuleList{Enabled: len(p.Lists) > 0},
			SafeBrowsing: &filter.ConfigSafeBrowsing{},
		}
		for _, j := range p.Services {
			fc.Parental.BlockedServices = append(fc.Parental.BlockedServices, filter.BlockedServiceID(realSvcID(j)))
		}
		for _, i := range p.Lists {
			fc.RuleList.IDs = append(fc.RuleList.IDs, filter.ID(realListID(i)))
		}
		if p.Custom {
			fc.Custom.Enabled = true
			fc.Custom.Rules = []filter.RuleText{"||filler-cust.vtest^", filter.RuleText(realCustRule(p.Idx))}
		}
		db.Add(&agd.Profile{FilterConfig: fc, Access: access.EmptyProfile{}, BlockingMode: &dnsmsg.BlockingModeNullIP{},
			Ratelimiter: agd.GlobalRatelimiter{}, ID: agd.ProfileID(p.ID), FilteredResponseTTL: 10 * time.Second,
			FilteringEnabled: true, QueryLogEnabled: true, IPLogEnabled: p.IPLog}, mkDevice(p.Dev))
	}
	geo := stack.NewGeo()
	geo.AddNet(netip.MustParsePrefix("203.0.113.0/24"), &geoip.Location{Country: "DE", Continent: "EU", ASN: 1111})
	st, err := stack.New(&stack.Options{FilterStorage: storage, ProfileDB: db, GeoIP: geo, Upstream: upstream, QueryLog: sink,
		ServerGroups: []*agd.ServerGroup{grp}, FilteringGroups: map[agd.FilteringGroupID]*agd.FilteringGroup{"fgreal": fg}})
	if err != nil {
		r.Inconclusive("part 3: cannot build the stack: " + err.Error())
		return
	}

	// Case list: for every profile every owner, a few names each.
	type owner struct {
		kind string // svc, blk, alw, cust, none
		i    int
	}
	var owners []owner
	for j := 0; j < realServices; j++ {
		owners = append(owners, owner{"svc", j})
	}
	for i := 0; i < realLists; i++ {
		owners = append(owners, owner{"blk", i}, owner{"alw", i})
	}
	owners = append(owners, owner{"cust", 0}, owner{"cust-other", 0}, owner{"none", 0})

	var ctr int
	mk := func(rng *rand.Rand, p *realProf, o owner) *realCase {
		ctr++
		c := &realCase{Idx: ctr, Prof: p, QType: []uint16{dns.TypeA, dns.TypeAAAA, dns.TypeA, dns.TypeHTTPS}[rng.IntN(4)], Expect: given{Kind: kNone}}
		lbl := fmt.Sprintf("q%06d", ctr)
		if rng.IntN(3) == 0 {
			lbl += ".sub"
		}
		switch o.kind {
		case "svc":
			c.Name = fmt.Sprintf("%s.svc%d.%s.", lbl, o.i+1, realZone)
			c.Owner = "blocked service " + realSvcID(o.i)
			switch pos := p.svcPos(o.i); {
			case pos < 0:
				c.Class = "svc-not-enabled"
			case len(p.Services) == 1:
				c.Class = "svc-only"
			case pos == 0:
				c.Class = "svc-first-of-several"
			default:
				c.Class = "svc-later-of-several"
			}
			if p.svcPos(o.i) >= 0 {
				c.Expect = given{Kind: kBlocked, List: string(filter.IDBlockedService), Rule: realSvcID(o.i)}
			}
		case "blk":
			c.Name = fmt.Sprintf("%s.blk.list%d.%s.", lbl, o.i+1, realZone)
			c.Owner = "block rule of " + realListID(o.i)
			c.Class = "list-block-not-enabled"
			if p.hasList(o.i) {
				c.Class = "list-block"
				c.Expect = given{Kind: kBlocked, List: realListID(o.i), Rule: realBlkRule(o.i)}
			}
		case "alw":
			c.Name = fmt.Sprintf("%s.alw.list%d.%s.", lbl, o.i+1, realZone)
			c.Owner = "allow rule of " + realListID(o.i)
			c.Class = "list-allow-not-enabled"
			if p.hasList(o.i) {
				c.Class = "list-allow"
				c.Expect = given{Kind: kAllowed, List: realListID(o.i), Rule: realAlwRule(o.i)}
			}
		case "cust":
			c.Name = fmt.Sprintf("%s.cust.prof%d.%s.", lbl, p.Idx, realZone)
			c.Owner = "custom rule of " + p.ID
			c.Class = "custom-not-enabled"
			if p.Custom {
				c.Class = "custom"
				c.Expect = given{Kind: kBlocked, List: string(filter.IDCustom), Rule: realCustRule(p.Idx)}
			}
		case "cust-other":
			other := (p.Idx + 1) % len(profs)
			c.Name = fmt.Sprintf("%s.cust.prof%d.%s.", lbl, other, realZone)
			c.Owner = "custom rule of another profile"
			c.Class = "custom-of-other-profile"
		default:
			c.Name = fmt.Sprintf("%s.none.%s.", lbl, realZone)
			c.Owner = "nothing"
			c.Class = "unowned"
		}
		return c
	}
	var cases []*realCase
	reps := r.N(8, 24)
	for rep := 0; rep < reps; rep++ {
		for _, p := range profs {
			for oi, o := range owners {
				cases = append(cases, mk(r.Rand("real", (rep*1000+p.Idx)*100+oi), p, o))
			}
		}
	}
	// Deterministic shuffle, so that the result caches and pooled objects see
	// profiles and owners interleaved.
	r.Rand("realshuffle", 0).Shuffle(len(cases), func(a, b int) { cases[a], cases[b] = cases[b], cases[a] })

	exp := map[string]*lineExp{}
	byID := map[string]*realCase{}
	sampled := 0
	for n, c := range cases {
		rng := r.Rand("realreq", n)
		srv := servers[rng.IntN(len(servers))]
		c.Srv = string(srv.Name)
		m := stack.NewQuery(uint16(rng.IntN(65536)), c.Name, c.QType, dns.ClassINET)
		rq := &stack.Request{Server: srv, Group: grp, Msg: m, Local: netip.AddrPortFrom(netip.MustParseAddr("192.0.2.9"), 853),
			Remote: netip.AddrPortFrom(netip.AddrFrom4([4]byte{203, 0, 113, byte(1 + rng.IntN(250))}), uint16(1024+rng.IntN(60000)))}
		switch srv.Protocol {
		case agd.ProtoDoT:
			rq.TLSServerName = c.Prof.Dev + "." + devDomain
		case agd.ProtoDoH:
			rq.URL = &url.URL{Path: "/dns-query/" + c.Prof.Dev}
		default:
			m.SetEdns0(1232, false)
			o := m.IsEdns0()
			o.Option = append(o.Option, &dns.EDNS0_LOCAL{Code: 65074, Data: []byte(c.Prof.Dev)})
		}
		out := st.Serve(rq)
		logs := out.Trace.QueryLog
		r.Eval("p3|"+c.Class+fmt.Sprintf("|nsvc%d|ip%d", len(c.Prof.Services), b2i(c.Prof.IPLog)), c.Class != "unowned")
		r.Bucket("p3.cases", 1)
		wit := func(extra map[string]any) map[string]any {
			ev := []entryView{}
			for _, e := range logs {
				ev = append(ev, viewEntry(e))
			}
			w := map[string]any{"case": c, "request_id": out.ID.String(), "log_entries": ev, "serve_error": fmt.Sprint(out.Err),
				"errors_collected": out.Trace.Errors}
			for k, v := range extra {
				w[k] = v
			}
			return w
		}
		if out.Panic != nil {
			r.Violation("real:panic:serve", "the stack with the real filter storage panicked on a legal request", wit(map[string]any{"panic": fmt.Sprint(out.Panic)}))
			st.Forget(out)
			continue
		}
		if len(out.Responses) == 0 {
			r.Bucket("p3.unanswered", 1)
			st.Forget(out)
			continue
		}
		switch {
		case len(logs) == 0:
			r.Violation("real:missing-entry", "an answered query of a profile with query logging enabled produced no entry", wit(nil))
		case len(logs) > 1:
			r.Violation("real:duplicate-entry", "one query produced several query-log entries", wit(nil))
		}
		for _, e := range logs {
			bad := func(f string, want, got any) {
				r.Violation("real:entry-field:"+f+":"+c.Class, "query-log entry does not describe its own request (real filter storage)",
					wit(map[string]any{"field": f, "want": fmt.Sprint(want), "got": fmt.Sprint(got)}))
			}
			if e.RequestID != out.ID {
				bad("request-id", out.ID, e.RequestID)
			}
			if !strings.EqualFold(e.DomainFQDN, c.Name) {
				bad("name", c.Name, e.DomainFQDN)
			}
			if e.RequestType != c.QType {
				bad("qtype", c.QType, e.RequestType)
			}
			if int(e.ResponseCode) != out.Responses[0].Rcode {
				bad("rcode", out.Responses[0].Rcode, e.ResponseCode)
			}
			if string(e.ProfileID) != c.Prof.ID || string(e.DeviceID) != c.Prof.Dev {
				bad("profile-device", c.Prof.ID+"/"+c.Prof.Dev, string(e.ProfileID)+"/"+string(e.DeviceID))
			}
			if (e.RemoteIP != netip.Addr{}) != c.Prof.IPLog {
				r.Violation("real:ip-gate", "client address presence does not follow IPLogEnabled", wit(nil))
			}
			g := givenOf(e.RequestResult)
			switch {
			case g.Kind != c.Expect.Kind:
				bad("verdict", vkit.JSON(c.Expect), vkit.JSON(g))
			case g.List != c.Expect.List:
				bad("list", vkit.JSON(c.Expect), vkit.JSON(g))
			case g.Rule != c.Expect.Rule:
				bad("rule", vkit.JSON(c.Expect), vkit.JSON(g))
			}
			if gr := givenOf(e.ResponseResult); gr.Kind != kNone {
				bad("response-result", vkit.JSON(given{Kind: kNone}), vkit.JSON(gr))
			}
			exp[e.RequestID.String()] = docLine(e)
			r.Bucket("p3.entries_checked", 1)
			r.Bucket("p3."+c.Class, 1)
		}
		byID[out.ID.String()] = c
		if sampled < 2 && (c.Class == "svc-later-of-several" || c.Class == "list-allow") {
			sampled++
			r.Sample(wit(map[string]any{"part": "real filter storage"}))
		}
		st.Forget(out)
	}
	if n := r.BucketGet("p3.unanswered"); n > 0 {
		r.Inconclusive(fmt.Sprintf("part 3: %d request(s) got no response", n))
	}
	ec.mu.Lock()
	nerr := len(ec.errs)
	first := ""
	if nerr > 0 {
		first = ec.errs[0]
	}
	ec.mu.Unlock()
	if nerr > 0 {
		r.Inconclusive(fmt.Sprintf("part 3: the real filter storage reported %d error(s), first: %s", nerr, first))
	}

	// End to end: the l / m / f properties of the line of each request.
	parsed := checkFile(r, "real-e2e", path, exp)
	for u, obj := range parsed {
		c := byID[u]
		if c == nil {
			continue
		}
		code, list, rule := docResult(c.Expect, given{Kind: kNone})
		w := map[string]any{"case": c, "line": obj, "want_f": code, "want_l": list, "want_m": rule}
		gl, _ := obj["l"].(string)
		gm, _ := obj["m"].(string)
		gf, _ := obj["f"].(json.Number)
		if gf.String() != fmt.Sprint(code) {
			r.Violation("real-e2e:line:f:"+c.Class, "the action code of a line is not that of its own request", w)
		}
		if gl != list {
			r.Violation("real-e2e:line:l:"+c.Class, "the filter-list ID of a line is not the list that owns the requested domain", w)
		}
		if gm != rule {
			r.Violation("real-e2e:line:m:"+c.Class, "the rule / blocked-service ID of a line is not the one that owns the requested domain", w)
		}
		r.Bucket("p3.lines_checked", 1)
	}
	_ = os.Remove(path)
	r.Extra("real_filter_profiles", len(profs))
	r.Extra("real_filter_services", realServices)
	r.Extra("real_filter_rule_lists", realLists)
}

// ---------------------------------------------------------------------------
// Part 4: the logging flags of a profile after a real profiledb file-cache
// round trip (full synchronisation -> cache file -> new database instance that
// starts from the cache, i.e. a restart).
// ---------------------------------------------------------------------------

type flagStorage struct {
	mu    sync.Mutex
	profs []*agd.Profile
	devs  []*agd.Device
	calls int
}

func (s *flagStorage) CreateAutoDevice(context.Context, *profiledb.StorageCreateAutoDeviceRequest) (*profiledb.StorageCreateAutoDeviceResponse, error) {
	return nil, fmt.Errorf("not supported")
}

func (s *flagStorage) Profiles(_ context.Context, _ *profiledb.StorageProfilesRequest) (*profiledb.StorageProfilesResponse, error) {
	s.mu.Lock()
	defer s.mu.Unlock()
	s.calls++
	return &profiledb.StorageProfilesResponse{SyncTime: time.Now(), Profiles: s.profs, Devices: s.devs}, nil
}

func part4Restart(t *testing.T, r *vkit.Run) {
	cache := filepath.Join(scratch(t), "c15-profiles.pb")
	_ = os.Remove(cache)
	type fp struct {
		ID, Dev   string
		QL, IPLog bool
	}
	var fps []fp
	full := &flagStorage{}
	for _, ql := range []bool{true, false} {
		for _, ip := range []bool{true, false} {
			for k := 0; k < 3; k++ {
				p := fp{ID: fmt.Sprintf("r%d%d%d", b2i(ql), b2i(ip), k), Dev: fmt.Sprintf("rd%d%d%d", b2i(ql), b2i(ip), k), QL: ql, IPLog: ip}
				fps = append(fps, p)
				full.profs = append(full.profs, &agd.Profile{
					FilterConfig: &filter.ConfigClient{Custom: &filter.ConfigCustom{ID: p.ID, UpdateTime: time.Unix(1_700_000_000, 0)},
						Parental: &filter.ConfigParental{}, RuleList: &filter.ConfigRuleList{}, SafeBrowsing: &filter.ConfigSafeBrowsing{}},
					Access: access.EmptyProfile{}, BlockingMode: &dnsmsg.BlockingModeNullIP{}, Ratelimiter: agd.GlobalRatelimiter{},
					ID: agd.ProfileID(p.ID), DeviceIDs: []agd.DeviceID{agd.DeviceID(p.Dev)}, FilteredResponseTTL: 10 * time.Second,
					FilteringEnabled: true, QueryLogEnabled: ql, IPLogEnabled: ip,
				})
				full.devs = append(full.devs, &agd.Device{ID: agd.DeviceID(p.Dev), Name: agd.DeviceName("dev " + p.Dev),
					Auth: &agd.AuthSettings{PasswordHash: agdpasswd.AllowAuthenticator{}}, FilteringEnabled: true})
			}
		}
	}
	ec := &realErrColl{}
	newDB := func(st profiledb.Storage) (*profiledb.Default, error) {
		return profiledb.New(&profiledb.Config{Logger: stack.Logger(), Storage: st, ErrColl: ec, Metrics: profiledb.EmptyMetrics{},
			CacheFilePath: cache, FullSyncIvl: 1000 * time.Hour, FullSyncRetryIvl: 1000 * time.Hour, ResponseSizeEstimate: datasize.KB})
	}
	ctx, cancel := context.WithTimeout(context.Background(), time.Minute)
	defer cancel()
	db1, err := newDB(full)
	if err == nil {
		err = db1.Refresh(ctx) // full synchronisation, writes the cache file
	}
	if err != nil {
		r.Inconclusive("part 4: first database: " + err.Error())
		return
	}
	if st, serr := os.Stat(cache); serr != nil || st.Size() == 0 {
		r.Inconclusive("part 4: the full synchronisation wrote no cache file")
		return
	}
	// "Restart": a new instance that starts from the cache; the backend reports
	// no modified profiles afterwards.
	unchanged := &flagStorage{}
	db2, err := newDB(unchanged)
	if err == nil {
		err = db2.Refresh(ctx)
	}
	if err != nil {
		r.Inconclusive("part 4: second database: " + err.Error())
		return
	}

	for _, ph := range []struct {
		name string
		db   profiledb.Interface
	}{{"before-restart", db1}, {"after-restart", db2}} {
		dot := stack.NewServer("rs-dot", agd.ProtoDoT, netip.MustParseAddrPort("192.0.2.11:853"), false)
		doh := stack.NewServer("rs-doh", agd.ProtoDoH, netip.MustParseAddrPort("192.0.2.11:443"), false)
		grp := &agd.ServerGroup{DDR: stack.NewDDR(false), DeviceDomains: []string{devDomain}, Name: "grs", FilteringGroup: "fgrs",
			ProfilesEnabled: true, Servers: []*agd.Server{dot, doh}}
		fg := &agd.FilteringGroup{ID: "fgrs", FilterConfig: &filter.ConfigGroup{Parental: &filter.ConfigParental{},
			RuleList: &filter.ConfigRuleList{}, SafeBrowsing: &filter.ConfigSafeBrowsing{}}}
		st, serr := stack.New(&stack.Options{FilterStorage: &scriptStorage{}, ProfileDB: ph.db, Upstream: upstream,
			ServerGroups: []*agd.ServerGroup{grp}, FilteringGroups: map[agd.FilteringGroupID]*agd.FilteringGroup{"fgrs": fg}})
		if serr != nil {
			r.Inconclusive("part 4: cannot build the stack: " + serr.Error())
			return
		}
		n := 0
		for rep := 0; rep < r.N(8, 32); rep++ {
			for _, p := range fps {
				n++
				rng := r.Rand("restart-"+ph.name, n)
				srv := []*agd.Server{dot, doh}[rng.IntN(2)]
				name := fmt.Sprintf("q%05d.%s.restart.c15.example.", n, ph.name)
				remote := netip.AddrPortFrom(netip.AddrFrom4([4]byte{203, 0, 113, byte(1 + rng.IntN(250))}), uint16(1024+rng.IntN(60000)))
				rq := &stack.Request{Server: srv, Group: grp, Msg: stack.NewQuery(uint16(rng.IntN(65536)), name, dns.TypeA, dns.ClassINET),
					Remote: remote, Local: netip.MustParseAddrPort("192.0.2.11:853")}
				if srv == dot {
					rq.TLSServerName = p.Dev + "." + devDomain
				} else {
					rq.URL = &url.URL{Path: "/dns-query/" + p.Dev}
				}
				out := st.Serve(rq)
				logs, bills := out.Trace.QueryLog, out.Trace.Bill
				r.Eval(fmt.Sprintf("p4|%s|ql%d|ip%d", ph.name, b2i(p.QL), b2i(p.IPLog)), ph.name == "after-restart" && !(p.QL && p.IPLog))
				r.Bucket("p4."+ph.name+".cases", 1)
				ev := []entryView{}
				for _, e := range logs {
					ev = append(ev, viewEntry(e))
				}
				w := map[string]any{"phase": ph.name, "profile_as_synchronised": map[string]any{"id": p.ID, "device": p.Dev,
					"query_log_enabled": p.QL, "ip_log_enabled": p.IPLog}, "server": string(srv.Name), "name": name, "remote": remote.String(),
					"log_entries": ev, "bill_records": len(bills), "responses": len(out.Responses), "serve_error": fmt.Sprint(out.Err)}
				if out.Panic != nil || len(out.Responses) == 0 || len(bills) != 1 {
					// Not attributed / not served: the model's premise does not hold.
					r.Bucket("p4.not_attributed_or_unanswered", 1)
					st.Forget(out)
					continue
				}
				key := "restart:" + ph.name + ":"
				switch {
				case !p.QL && len(logs) > 0:
					r.Violation(key+"qlog-disabled-logged", "a query of a profile synchronised with query logging disabled produced an entry", w)
				case p.QL && len(logs) == 0:
					r.Violation(key+"missing-entry", "a query of a profile synchronised with query logging enabled produced no entry", w)
				}
				if !p.QL {
					r.Bucket("p4."+ph.name+".qlog_suppressed", 1)
				}
				for _, e := range logs {
					hasIP := e.RemoteIP != netip.Addr{}
					switch {
					case hasIP && !p.IPLog:
						r.Violation(key+"ip-logged-without-optin", "entry of a profile synchronised with IP logging disabled contains the client address", w)
					case !hasIP && p.IPLog:
						r.Violation(key+"ip-missing", "entry of a profile synchronised with IP logging enabled lacks the client address", w)
					case hasIP && e.RemoteIP.Unmap() != remote.Addr():
						r.Violation(key+"entry-field:remote-ip", "entry carries another client address", w)
					}
					if string(e.ProfileID) != p.ID || string(e.DeviceID) != p.Dev {
						r.Violation(key+"entry-field:profile-device", "entry names another profile / device", w)
					}
					if p.IPLog {
						r.Bucket("p4."+ph.name+".ip_logged", 1)
					} else {
						r.Bucket("p4."+ph.name+".ip_suppressed", 1)
					}
				}
				st.Forget(out)
			}
		}
	}
	if n := r.BucketGet("p4.not_attributed_or_unanswered"); n > 0 {
		r.Inconclusive(fmt.Sprintf("part 4: %d request(s) were not attributed to their profile or not answered", n))
	}
	unchanged.mu.Lock()
	calls := unchanged.calls
	unchanged.mu.Unlock()
	r.Bucket("p4.post_restart_sync_calls", int64(calls))
	_ = os.Remove(cache)
}
