// Package c19 monitors property C19: the linked-IP / dynamic-DNS proxy forwards
// only its documented API, and only with the real client address.
//
// The real websvc.Service is started on loopback ports with a recording
// back-end behind it.  A raw TCP client writes request lines and headers
// exactly as generated and the oracle compares (a) whether the back-end was
// contacted with a small model written from doc/http.md, and (b) every request
// the back-end received with the invariants of the property statement.
package c19

import (
	"bufio"
	"context"
	"fmt"
	"io"
	"math/rand/v2"
	"net"
	"net/http"
	"net/netip"
	"net/url"
	"os"
	"os/exec"
	"regexp"
	"sort"
	"strconv"
	"strings"
	"sync"
	"testing"
	"time"

	"github.com/AdguardTeam/AdGuardDNS/internal/websvc"
	"github.com/AdguardTeam/AdGuardDNS/verif/vkit"
)

// ---------------------------------------------------------------------------
// Reference model, written from the property statement, doc/http.md and
// RFC 3986 (not from linkip.go).

const robotsBody = "User-agent: *\nDisallow: /\n"

// clientIPHeader is the header the back-end expects the peer address in
// (doc/code: X-Connecting-IP; header names are case-insensitive).
const clientIPHeader = "X-Connecting-Ip"

// listedFwd are the client-supplied forwarding headers that must never reach
// the back-end with client-supplied values.
var listedFwd = []string{
	"CF-Connecting-IP", "Forwarded", "True-Client-IP", "X-Real-IP",
	"X-Forwarded-For", "X-Forwarded-Host", "X-Forwarded-Proto",
}

// unlistedFwd are similar headers that neither the statement nor the
// repository's tests name; they are generated and only counted.
var unlistedFwd = []string{"X-Forwarded-Port", "X-Client-IP", "X-Cluster-Client-IP", "Via", "X-Original-Forwarded-For"}

var absRe = regexp.MustCompile(`^[A-Za-z][A-Za-z0-9+.\-]*://`)

// splitTarget splits a raw request target into its form and path component.
func splitTarget(t string) (form, path, query string) {
	switch {
	case t == "*":
		return "asterisk", "", ""
	case strings.HasPrefix(t, "/"):
		form = "origin"
	case absRe.MatchString(t):
		form = "absolute"
		t = t[strings.Index(t, "://")+3:]
		i := strings.IndexAny(t, "/?")
		if i < 0 {
			return form, "", ""
		}
		t = t[i:]
	default:
		return "other", "", ""
	}
	if i := strings.IndexByte(t, '?'); i >= 0 {
		return form, t[:i], t[i+1:]
	}
	return form, t, ""
}

func isHex(c byte) bool {
	return c >= '0' && c <= '9' || c >= 'a' && c <= 'f' || c >= 'A' && c <= 'F'
}

func unhex(c byte) byte {
	switch {
	case c >= '0' && c <= '9':
		return c - '0'
	case c >= 'a' && c <= 'f':
		return c - 'a' + 10
	default:
		return c - 'A' + 10
	}
}

func isUnreserved(c byte) bool {
	return c >= 'a' && c <= 'z' || c >= 'A' && c <= 'Z' || c >= '0' && c <= '9' ||
		c == '-' || c == '.' || c == '_' || c == '~'
}

// pctDecode decodes valid %XX triplets; all of them, or only those that encode
// unreserved characters (RFC 3986, 6.2.2.2).
func pctDecode(s string, onlyUnreserved bool) string {
	if !strings.Contains(s, "%") {
		return s
	}
	var b strings.Builder
	for i := 0; i < len(s); i++ {
		if s[i] == '%' && i+2 < len(s) && isHex(s[i+1]) && isHex(s[i+2]) {
			c := unhex(s[i+1])<<4 | unhex(s[i+2])
			if !onlyUnreserved || isUnreserved(c) {
				b.WriteByte(c)
				i += 2
				continue
			}
		}
		b.WriteByte(s[i])
	}
	return b.String()
}

// removeDotSegments is the algorithm of RFC 3986, 5.2.4.
func removeDotSegments(in string) string {
	out := make([]byte, 0, len(in))
	dropLast := func() {
		i := len(out) - 1
		for i >= 0 && out[i] != '/' {
			i--
		}
		if i < 0 {
			i = 0
		}
		out = out[:i]
	}
	for len(in) > 0 {
		switch {
		case strings.HasPrefix(in, "../"):
			in = in[3:]
		case strings.HasPrefix(in, "./"):
			in = in[2:]
		case strings.HasPrefix(in, "/./"):
			in = in[2:]
		case in == "/.":
			in = "/"
		case strings.HasPrefix(in, "/../"):
			in = in[3:]
			dropLast()
		case in == "/..":
			in = "/"
			dropLast()
		case in == "." || in == "..":
			in = ""
		default:
			j := 0
			if in[0] == '/' {
				j = 1
			}
			for j < len(in) && in[j] != '/' {
				j++
			}
			out = append(out, in[:j]...)
			in = in[j:]
		}
	}
	return string(out)
}

func hasDotSegment(p string) bool {
	for _, x := range strings.Split(p, "/") {
		if x == "." || x == ".." {
			return true
		}
	}
	return false
}

// deepDecode percent-decodes until nothing changes (at most 5 times).
func deepDecode(p string) string {
	for i := 0; i < 5; i++ {
		d := pctDecode(p, false)
		if d == p {
			break
		}
		p = d
	}
	return p
}

// multiEncoded reports whether decoding the path more than once creates dot
// segments or slashes that are not there after the one decoding that an HTTP
// server applies, i.e. whether a proxy that decodes once more than it checked
// would change the structure of the path.
func multiEncoded(p string) bool {
	d1 := pctDecode(p, false)
	dn := deepDecode(d1)
	if dn == d1 {
		return false
	}
	return hasDotSegment(dn) && !hasDotSegment(d1) || strings.Count(dn, "/") > strings.Count(d1, "/")
}

// normalisePath is the "standard normalisation" of the statement.
func normalisePath(p string) string { return removeDotSegments(pctDecode(p, true)) }

// underAPI reports whether an already normalised path is under one of the API
// prefixes.  Percent-encoded reserved characters that remain after the
// normalisation (e.g. "/linkip%2F/x") are viewed leniently, i.e. decoded, so
// that nothing stricter than the statement is asserted.
func underAPI(p, base string) bool {
	for _, v := range []string{p, pctDecode(p, false)} {
		if strings.HasPrefix(v, base+"/linkip/") || strings.HasPrefix(v, base+"/ddns/") {
			return true
		}
	}
	return false
}

func segments(p string) []string {
	if !strings.HasPrefix(p, "/") {
		return nil
	}
	return strings.Split(p[1:], "/")
}

// documentedShape reports whether (method, segments) is one of
//
//	GET  /linkip/{device_id}/{encrypted}
//	GET  /linkip/{device_id}/{encrypted}/status
//	POST /ddns/{device_id}/{encrypted}/{domain}
//	POST /linkip/{device_id}/{encrypted}
func documentedShape(method string, s []string, allowEmpty bool) bool {
	if len(s) < 3 || len(s) > 4 {
		return false
	}
	if !allowEmpty {
		for _, x := range s {
			if x == "" {
				return false
			}
		}
	}
	switch method {
	case "GET":
		return s[0] == "linkip" && (len(s) == 3 || s[3] == "status")
	case "POST":
		return s[0] == "linkip" && len(s) == 3 || s[0] == "ddns" && len(s) == 4
	}
	return false
}

type verdict struct {
	Expect   string `json:"expect"` // must | mustnot | ambiguous
	Reason   string `json:"reason"`
	Form     string `json:"form"`
	Path     string `json:"-"`
	HasDot   bool   `json:"has_dot_segment"`
	APIFirst bool   `json:"first_segment_is_api_word"`
}

// classify decides from the raw method and request target whether the
// back-end must, must not, or may be contacted.  It is "must" only for plain
// documented shapes (no empty, dot or percent-encoded segments) and "must
// not" only if no reading of the target (raw / percent-decoded / RFC 3986
// normalised, placeholders empty or not) is a documented shape.
func classify(method, target string) verdict {
	form, p, _ := splitTarget(target)
	v := verdict{Form: form, Path: p}
	dec := segments(pctDecode(p, false))
	for _, s := range dec {
		if s == "." || s == ".." {
			v.HasDot = true
		}
	}
	readings := [][]string{
		segments(p), dec,
		segments(normalisePath(p)),
		segments(removeDotSegments(pctDecode(p, false))),
	}
	for _, s := range readings {
		if len(s) > 0 && (s[0] == "linkip" || s[0] == "ddns") {
			v.APIFirst = true
		}
	}
	if method != "GET" && method != "POST" {
		v.Expect, v.Reason = "mustnot", "method-not-get-or-post"
		return v
	}
	if form != "origin" && form != "absolute" {
		v.Expect, v.Reason = "mustnot", "target-form"
		return v
	}
	yes, no := 0, 0
	for _, s := range readings {
		for _, ae := range []bool{false, true} {
			if documentedShape(method, s, ae) {
				yes++
			} else {
				no++
			}
		}
	}
	switch {
	case no == 0 && !v.HasDot && !strings.Contains(p, "%"):
		v.Expect = "must"
		v.Reason = method + "-" + dec[0] + "-" + strconv.Itoa(len(dec))
	case yes == 0:
		v.Expect = "mustnot"
		n := len(dec)
		switch {
		case !v.APIFirst:
			v.Reason = "prefix"
		case n < 3:
			v.Reason = "too-few-segments"
		case n > 4:
			v.Reason = "too-many-segments"
		case method == "GET" && dec[0] == "ddns":
			v.Reason = "get-under-ddns"
		case method == "GET" && n == 4:
			v.Reason = "get-linkip-4th-not-status"
		case method == "POST" && dec[0] == "linkip" && n == 4:
			v.Reason = "post-linkip-4-segments"
		case method == "POST" && dec[0] == "ddns" && n == 3:
			v.Reason = "post-ddns-3-segments"
		default:
			v.Reason = "shape"
		}
	default:
		v.Expect, v.Reason = "ambiguous", "readings-disagree"
	}
	return v
}

// ---------------------------------------------------------------------------
// Case generator.

type hdr struct {
	Name  string `json:"n"`
	Value string `json:"v"`
}

type reqT struct {
	Method  string `json:"method"`
	Target  string `json:"target"`
	Proto   string `json:"proto"`
	Headers []hdr  `json:"headers"`
	Body    string `json:"body,omitempty"` // raw bytes after the header block

	// generator metadata
	MethodKind string              `json:"method_kind"`
	PathMode   string              `json:"path_mode"`
	HdrKind    string              `json:"hdr_kind"`
	ConnKind   string              `json:"conn_kind"`
	BodyKind   string              `json:"body_kind"`
	Lenient    string              `json:"lenient,omitempty"` // non-empty: the HTTP server itself may reject this request
	Forged     map[string][]string `json:"forged,omitempty"`  // canonical header -> client-supplied values
	ConnNames  []string            `json:"conn_names,omitempty"`
	Token      string              `json:"token"`
	HintKind   string              `json:"hint_kind,omitempty"`   // request header(s) / query parameter a routing shortcut could consult
	HintMethod string              `json:"hint_method,omitempty"` // the method named there
}

type caseT struct {
	Idx     int    `json:"case_index"`
	LocalIP string `json:"client_local_ip"`
	Reqs    []reqT `json:"requests"`
}

func pick[T any](rng *rand.Rand, xs []T) T { return xs[rng.IntN(len(xs))] }

func weighted(rng *rand.Rand, kv ...any) string {
	tot := 0
	for i := 1; i < len(kv); i += 2 {
		tot += kv[i].(int)
	}
	x := rng.IntN(tot)
	for i := 0; i < len(kv); i += 2 {
		x -= kv[i+1].(int)
		if x < 0 {
			return kv[i].(string)
		}
	}
	return kv[0].(string)
}

const idAlphabet = "abcdefghijklmnopqrstuvwxyz0123456789"

func genID(rng *rand.Rand) string {
	n := 4 + rng.IntN(9)
	b := make([]byte, n)
	for i := range b {
		b[i] = idAlphabet[rng.IntN(len(idAlphabet))]
	}
	return string(b)
}

var segKinds = []string{"id", "id", "id", "empty", "dot", "dotdot", "encdotdot", "encdot", "encslash",
	"status", "long", "unicode", "apiword", "encword", "special", "domain", "multienc"}

// encN percent-encodes every byte of s and then escapes the percent signs
// depth-1 more times: encN("..", 2, ...) is "%252e%252e".  hexCase: 0 lower, 1
// upper, 2 mixed per digit.
func encN(rng *rand.Rand, s string, depth, hexCase int) string {
	var b strings.Builder
	for i := 0; i < len(s); i++ {
		h := fmt.Sprintf("%02x", s[i])
		switch hexCase {
		case 1:
			h = strings.ToUpper(h)
		case 2:
			if rng.IntN(2) == 0 {
				h = strings.ToUpper(h)
			}
		}
		b.WriteString("%" + strings.Repeat("25", depth-1) + h)
	}
	return b.String()
}

// genMultiEnc returns a segment that only becomes a dot segment, or only
// gains slashes, when it is percent-decoded more than once.
func genMultiEnc(rng *rand.Rand) string {
	depth := 2
	switch x := rng.IntN(100); {
	case x < 12:
		depth = 1
	case x >= 72:
		depth = 3
	}
	hc := rng.IntN(3)
	dd := func() string {
		switch rng.IntN(6) {
		case 0:
			return "." + encN(rng, ".", depth, hc)
		case 1:
			return encN(rng, ".", depth, hc) + "."
		}
		return encN(rng, "..", depth, hc)
	}
	sl := encN(rng, "/", depth, hc)
	tail := pick(rng, []string{"admin", "secret", "internal" + sl + "users", genID(rng)})
	switch rng.IntN(8) {
	case 0, 1, 2:
		return dd()
	case 3:
		return encN(rng, ".", depth, hc)
	case 4:
		// literal dots between multiply encoded slashes
		return genID(rng) + strings.Repeat(sl+"..", 1+rng.IntN(3)) + sl + tail
	case 5:
		return genID(rng) + strings.Repeat(sl+dd(), 1+rng.IntN(3)) + sl + tail
	case 6:
		return genID(rng) + sl + genID(rng) + sl + genID(rng)
	default:
		return dd() + sl + tail
	}
}

func genSeg(rng *rand.Rand, kind string) string {
	switch kind {
	case "empty":
		return ""
	case "dot":
		return "."
	case "dotdot":
		return ".."
	case "encdotdot":
		return pick(rng, []string{"%2e%2e", "%2E%2E", ".%2e", "%2E.", "%2e%2E"})
	case "encdot":
		return pick(rng, []string{"%2e", "%2E"})
	case "encslash":
		return pick(rng, []string{"a%2Fb", "%2f", "..%2F" + genID(rng), genID(rng) + "%2F..", "%2F%2F", genID(rng) + "%2fstatus"})
	case "multienc":
		return genMultiEnc(rng)
	case "status":
		return "status"
	case "long":
		return strings.Repeat(pick(rng, []string{"a", "0", "z9"}), 600+rng.IntN(2400))
	case "unicode":
		return pick(rng, []string{"дом", "%D0%B4%D0%BE%D0%BC", "例え", "%E4%BE%8B", "caf%C3%A9", "ü"})
	case "apiword":
		return pick(rng, []string{"linkip", "ddns", "status", "robots.txt"})
	case "encword":
		return pick(rng, []string{"%6cinkip", "%64dns", "%73tatus", "l%69nkip", "status%2e"})
	case "special":
		return pick(rng, []string{"a;b", "a=b", "a:b", "a@b", "~x", "a+b", "a,b", "%20", "%25", "%3F", "%23x", "%5C", "...", "..a", "a..", ".a"})
	case "domain":
		return pick(rng, []string{"example.com", "sub.example.org", "xn--e1afmkfd.example", "a.b.c.d.example.net"})
	default:
		return genID(rng)
	}
}

var prefixNearMiss = []string{"LinkIP", "LINKIP", "linkipx", "xlinkip", "linkip.", "DDNS", "ddnss", "dns", "link", "%6cinkip", "%64dns", "linkip%2F", ""}

type pathT struct {
	Path   string
	Method string // preferred method, "" if none
	Mode   string
}

func join(segs []string) string { return "/" + strings.Join(segs, "/") }

func genTemplate(rng *rand.Rand) (segs []string, method string) {
	switch rng.IntN(4) {
	case 0:
		return []string{"linkip", genID(rng), genID(rng)}, "GET"
	case 1:
		return []string{"linkip", genID(rng), genID(rng), "status"}, "GET"
	case 2:
		return []string{"ddns", genID(rng), genID(rng), genSeg(rng, "domain")}, "POST"
	default:
		return []string{"linkip", genID(rng), genID(rng)}, "POST"
	}
}

func genPath(rng *rand.Rand) pathT {
	switch weighted(rng, "template", 39, "grammar", 22, "escape", 18, "multienc", 10, "short", 5, "fixed", 6) {
	case "short":
		// /linkip and /ddns with 0-3 further segments, empty ones included
		segs := []string{pick(rng, []string{"ddns", "ddns", "linkip"})}
		for k := rng.IntN(4); k > 0; k-- {
			segs = append(segs, pick(rng, []string{genID(rng), genID(rng), "", "status"}))
		}
		if len(segs) > 3 {
			segs = segs[:3+rng.IntN(2)]
		}
		return pathT{join(segs), pick(rng, []string{"POST", "GET"}), "short"}
	case "multienc":
		// one of the four documented shapes with a multiply encoded dot
		// segment / slash in every placeholder position in turn
		segs, m := genTemplate(rng)
		pos := 1 + rng.IntN(len(segs)-1)
		segs[pos] = genMultiEnc(rng)
		if rng.IntN(4) == 0 {
			segs[1+rng.IntN(len(segs)-1)] = genMultiEnc(rng)
		}
		if m == "GET" && len(segs) == 4 && pos == 3 && rng.IntN(3) > 0 {
			// keep "status" so that the request is forwarded; move the token
			segs[3], segs[1+rng.IntN(2)] = "status", segs[3]
		}
		return pathT{join(segs), m, "multienc"}
	case "template":
		segs, m := genTemplate(rng)
		mode := "template"
		for k := rng.IntN(3); k > 0; k-- {
			op := weighted(rng, "append", 3, "insert", 3, "replace", 4, "delete", 2, "trail", 1, "lead", 1, "prefix", 2)
			mode += "+" + op
			switch op {
			case "append":
				segs = append(segs, genSeg(rng, pick(rng, segKinds)))
			case "insert":
				pos := 1 + rng.IntN(len(segs))
				segs = append(segs[:pos], append([]string{genSeg(rng, pick(rng, segKinds))}, segs[pos:]...)...)
			case "replace":
				pos := 1 + rng.IntN(len(segs)-1)
				segs[pos] = genSeg(rng, pick(rng, segKinds))
			case "delete":
				if len(segs) > 1 {
					pos := 1 + rng.IntN(len(segs)-1)
					segs = append(segs[:pos], segs[pos+1:]...)
				}
			case "trail":
				segs = append(segs, "")
			case "lead":
				segs = append([]string{""}, segs...)
			case "prefix":
				segs[0] = pick(rng, prefixNearMiss)
			}
		}
		return pathT{join(segs), m, mode}
	case "grammar":
		n := rng.IntN(7)
		segs := make([]string, 0, n)
		for i := 0; i < n; i++ {
			if i == 0 && rng.IntN(10) < 6 {
				segs = append(segs, pick(rng, []string{"linkip", "ddns"}))
				continue
			}
			segs = append(segs, genSeg(rng, pick(rng, segKinds)))
		}
		if n == 0 {
			return pathT{pick(rng, []string{"/", ""}), "", "grammar"}
		}
		return pathT{join(segs), "", "grammar"}
	case "escape":
		up := func() string {
			return pick(rng, []string{"..", "..", "..", "%2e%2e", "%2E%2E", ".%2e", "%2e."})
		}
		x, y := pick(rng, []string{"secret", "admin", "internal", genID(rng)}), genID(rng)
		type pat struct {
			segs []string
			m    string
		}
		pats := []pat{
			{[]string{"linkip", up(), x}, "GET"},
			{[]string{"linkip", up(), x}, "POST"},
			{[]string{"linkip", up(), x, "status"}, "GET"},
			{[]string{"linkip", y, up()}, "GET"},
			{[]string{"linkip", up(), up()}, "GET"},
			{[]string{"linkip", up(), "linkip"}, "POST"},
			{[]string{"linkip", up(), up(), "status"}, "GET"},
			{[]string{"ddns", up(), up(), x}, "POST"},
			{[]string{"ddns", up(), x, y}, "POST"},
			{[]string{"ddns", y, up(), up()}, "POST"},
			{[]string{"ddns", y, x, up()}, "POST"},
			{[]string{"ddns", up(), "linkip", y}, "POST"},
			{[]string{"ddns", y, up(), up(), up(), x}, "POST"},
			{[]string{"linkip", ".", x}, "GET"},
			{[]string{"linkip", "%2e", x, "status"}, "GET"},
			{[]string{"ddns", ".", x, y}, "POST"},
			{[]string{"linkip", "..%2F" + x, "status"}, "GET"},
			{[]string{"linkip", "", up(), x}, "GET"},
			{[]string{"linkip", up(), "", "status"}, "GET"},
			{[]string{"ddns", "", up(), x}, "POST"},
		}
		p := pick(rng, pats)
		return pathT{join(p.segs), p.m, "escape"}
	default:
		return pathT{pick(rng, []string{"/robots.txt", "/robots.txt", "/robots.txt/", "/linkip/../robots.txt", "/favicon.ico",
			"/", "/", "/", "/linkip", "/ddns", "/linkip/", "//", "/dnscheck/test", "/%72obots.txt",
			"/.well-known/security.txt", "/index.html"}), "", "fixed"}
	}
}

func genMethod(rng *rand.Rand, preferred string) (m, kind, lenient string) {
	if preferred != "" && rng.IntN(100) < 72 {
		return preferred, preferred, ""
	}
	kind = weighted(rng, "GET", 16, "POST", 16, "HEAD", 9, "PUT", 10, "DELETE", 8, "OPTIONS", 6, "PATCH", 6,
		"lowercase", 10, "garbage", 10, "invalid", 2)
	switch kind {
	case "lowercase":
		return pick(rng, []string{"get", "post", "Get", "Post", "gET", "pOST", "head", "put"}), kind, ""
	case "garbage":
		return pick(rng, []string{"FOO", "GETT", "XGET", "POSTX", "G-E-T", "GET!", "CONNECT", "TRACE", "PROPFIND", "G", "GET_", "POST~", "P0ST", "QUERY"}), kind, ""
	case "invalid":
		return pick(rng, []string{"G(ET", "GET,POST", "GET:", "\"GET\"", "GE[T]", "PÖST"}), kind, "method is not an HTTP token"
	}
	return kind, kind, ""
}

func caseVariant(rng *rand.Rand, name string) string {
	switch rng.IntN(5) {
	case 0:
		return name
	case 1:
		return strings.ToLower(name)
	case 2:
		return strings.ToUpper(name)
	case 3:
		return http.CanonicalHeaderKey(name)
	default:
		b := []byte(name)
		for i := range b {
			if rng.IntN(2) == 0 {
				b[i] = strings.ToUpper(string(b[i]))[0]
			} else {
				b[i] = strings.ToLower(string(b[i]))[0]
			}
		}
		return string(b)
	}
}

func forgedValue(rng *rand.Rand, canon string) string {
	n := 1 + rng.IntN(250)
	switch canon {
	case "Forwarded":
		return pick(rng, []string{
			fmt.Sprintf("for=203.0.113.%d;proto=https;host=evil%d.example", n, n),
			fmt.Sprintf("for=\"[2001:db8::%x]\"", n),
			fmt.Sprintf("for=198.51.100.%d, for=203.0.113.%d", n, n),
		})
	case "X-Forwarded-Host":
		return fmt.Sprintf("evil%d.example", n)
	case "X-Forwarded-Proto":
		return pick(rng, []string{"https", fmt.Sprintf("https-forged-%d", n)})
	case "Via":
		return fmt.Sprintf("1.1 evil%d.example", n)
	case "X-Forwarded-Port":
		return "443"
	}
	return pick(rng, []string{
		fmt.Sprintf("203.0.113.%d", n), fmt.Sprintf("198.51.100.%d", n), fmt.Sprintf("2001:db8::%x", n),
		fmt.Sprintf("203.0.113.%d, 198.51.100.%d", n, 1+rng.IntN(250)),
	})
}

// genHeaders builds the header block of one request.  noClose: the request is
// followed by another one on the same connection.
// hintKinds are the request features a plausible routing shortcut could look at
// instead of the request line.
var hintKinds = []string{"cors-preflight", "cors-preflight", "cors-origin-only", "cors-acrm-only",
	"x-http-method-override", "x-http-method", "x-method-override", "query-_method", "form-_method",
	"upgrade", "expect-continue", "content-type", "x-original-url", "x-forwarded-method"}

// genHint adds one routing hint to the request.  docMethod is the method that
// the documentation gives for the request's path ("" if the path is not from a
// documented template).
func genHint(rng *rand.Rand, q *reqT, hs []hdr, docMethod, kind string, formBody *string) []hdr {
	m := docMethod
	if m == "" || rng.IntN(100) < 20 {
		m = pick(rng, []string{"GET", "POST", "POST", "GET", "get", "post", "PUT", "OPTIONS"})
	}
	q.HintKind, q.HintMethod = kind, m
	add := func(n, v string) { hs = append(hs, hdr{caseVariant(rng, n), v}) }
	origin := pick(rng, []string{"https://adguard-dns.io", "https://evil.example", "null", "http://localhost:3000"})
	switch kind {
	case "cors-preflight":
		add("Origin", origin)
		add("Access-Control-Request-Method", m)
		if rng.IntN(2) == 0 {
			add("Access-Control-Request-Headers", pick(rng, []string{"content-type", "x-connecting-ip, content-type", "authorization"}))
		}
	case "cors-origin-only":
		add("Origin", origin)
	case "cors-acrm-only":
		add("Access-Control-Request-Method", m)
	case "x-http-method-override":
		add("X-HTTP-Method-Override", m)
	case "x-http-method":
		add("X-HTTP-Method", m)
	case "x-method-override":
		add("X-Method-Override", m)
	case "query-_method":
		if q.Lenient == "" {
			sep := "?"
			if strings.Contains(q.Target, "?") {
				sep = "&"
			}
			q.Target += sep + "_method=" + m
		}
	case "form-_method":
		add("Content-Type", "application/x-www-form-urlencoded")
		*formBody = "_method=" + m + "&x=1"
	case "upgrade":
		add("Upgrade", pick(rng, []string{"websocket", "h2c", "WebSocket"}))
		hs = append(hs, hdr{"Connection", pick(rng, []string{"upgrade", "Upgrade", "keep-alive, Upgrade"})})
		q.ConnNames = append(q.ConnNames, "Upgrade")
	case "expect-continue":
		if q.Proto == "HTTP/1.1" {
			add("Expect", "100-continue")
		}
	case "content-type":
		add("Content-Type", pick(rng, []string{"application/json", "multipart/form-data; boundary=x", "text/plain", "application/x-www-form-urlencoded; charset=utf-8", "message/http"}))
	case "x-original-url":
		_, pth, _ := splitTarget(q.Target)
		if pth == "" {
			pth = "/linkip/dev1234/0123456789"
		}
		add(pick(rng, []string{"X-Original-URL", "X-Rewrite-URL", "X-Forwarded-Uri", "X-Forwarded-Prefix"}), pick(rng, []string{pth, "/linkip/dev1234/0123456789", "/ddns/dev1234/0123456789/example.com"}))
		add(pick(rng, []string{"X-Original-Method", "X-Forwarded-Method"}), m)
	case "x-forwarded-method":
		add("X-Forwarded-Method", m)
	}
	return hs
}

func genHeaders(rng *rand.Rand, q *reqT, hostOfService string, noClose bool, docMethod string, forceHint bool) {
	var hs []hdr
	formBody := ""
	q.Forged = map[string][]string{}
	addForged := func(name string) {
		canon := http.CanonicalHeaderKey(name)
		for k := 1 + rng.IntN(100)/70 + rng.IntN(100)/90; k > 0; k-- {
			v := forgedValue(rng, canon)
			hs = append(hs, hdr{caseVariant(rng, name), v})
			q.Forged[canon] = append(q.Forged[canon], v)
		}
	}
	host := pick(rng, []string{"linkip.example", hostOfService, "evil.example", "127.0.0.1", "localhost:80"})
	hs = append(hs, hdr{pick(rng, []string{"Host", "Host", "host", "HOST"}), host})
	if rng.IntN(3) == 0 {
		hs = append(hs, hdr{"User-Agent", "curl/8.5.0"})
	}
	if rng.IntN(4) == 0 {
		hs = append(hs, hdr{"Accept", "*/*"})
	}
	if rng.IntN(8) == 0 {
		hs = append(hs, hdr{"X-Request-Id", "client-chosen-id"})
	}

	// forwarding headers
	q.HdrKind = weighted(rng, "none", 22, "all-listed", 22, "subset", 46, "only-client-ip", 10)
	mustForge := map[string]bool{}
	// Connection header
	q.ConnKind = weighted(rng, "none", 22, "close", 30, "keep-alive", 8, "names-client-ip", 14,
		"names-forwarding", 12, "names-other", 8, "names-token", 3, "two-lines", 3)
	var connLines []string
	names := func(ns ...string) {
		for _, n := range ns {
			q.ConnNames = append(q.ConnNames, http.CanonicalHeaderKey(n))
		}
	}
	switch q.ConnKind {
	case "close":
		connLines = []string{pick(rng, []string{"close", "Close", "CLOSE"})}
	case "keep-alive":
		connLines = []string{"keep-alive"}
	case "names-client-ip":
		n := caseVariant(rng, "X-Connecting-IP")
		connLines = []string{pick(rng, []string{"close, " + n, n, n + ", close", "keep-alive, " + n, n + " , close", "close," + n})}
		names(n)
	case "names-forwarding":
		var ns []string
		for k := 1 + rng.IntN(3); k > 0; k-- {
			h := pick(rng, listedFwd)
			ns = append(ns, caseVariant(rng, h))
			mustForge[h] = true
			names(h)
		}
		if rng.IntN(2) == 0 {
			ns = append(ns, "close")
		}
		connLines = []string{strings.Join(ns, ", ")}
	case "names-other":
		n := pick(rng, []string{"X-Request-Id", "User-Agent", "Accept", "Host", "Cookie", "Content-Type"})
		connLines = []string{pick(rng, []string{n, "close, " + n})}
		names(n)
	case "names-token":
		connLines = []string{"X-Verif-Case"}
		names("X-Verif-Case")
	case "two-lines":
		n := caseVariant(rng, pick(rng, append([]string{"X-Connecting-IP", "X-Connecting-IP"}, listedFwd...)))
		connLines = []string{"close", n}
		names(n)
		if http.CanonicalHeaderKey(n) != clientIPHeader {
			for _, h := range listedFwd {
				if http.CanonicalHeaderKey(h) == http.CanonicalHeaderKey(n) {
					mustForge[h] = true
				}
			}
		}
	}
	if noClose {
		for i, l := range connLines {
			parts := strings.Split(l, ",")
			var keep []string
			for _, p := range parts {
				if !strings.EqualFold(strings.TrimSpace(p), "close") {
					keep = append(keep, p)
				}
			}
			connLines[i] = strings.TrimSpace(strings.Join(keep, ","))
			if connLines[i] == "" {
				connLines[i] = "keep-alive"
			}
		}
	}

	switch q.HdrKind {
	case "all-listed":
		for _, h := range listedFwd {
			addForged(h)
		}
		if rng.IntN(2) == 0 {
			addForged("X-Connecting-IP")
		}
	case "subset":
		for _, h := range listedFwd {
			if mustForge[h] || rng.IntN(10) < 3 {
				addForged(h)
			}
		}
		if rng.IntN(10) < 4 {
			addForged("X-Connecting-IP")
		}
		for _, h := range unlistedFwd {
			if rng.IntN(100) < 12 {
				addForged(h)
			}
		}
	case "only-client-ip":
		addForged("X-Connecting-IP")
	}
	for _, h := range listedFwd { // fixed order: the case must be a function of the seed
		if mustForge[h] && len(q.Forged[http.CanonicalHeaderKey(h)]) == 0 {
			addForged(h)
		}
	}

	hs = append(hs, hdr{"X-Verif-Case", q.Token})
	// routing hints: more often where the method is not GET/POST
	hintPct := 18
	if q.Method != "GET" && q.Method != "POST" {
		hintPct = 45
	}
	if forceHint || rng.IntN(100) < hintPct {
		kind := pick(rng, hintKinds)
		if forceHint && strings.EqualFold(q.Method, "OPTIONS") && rng.IntN(2) == 0 {
			kind = "cors-preflight"
		}
		hs = genHint(rng, q, hs, docMethod, kind, &formBody)
	}
	for _, l := range connLines {
		hs = append(hs, hdr{pick(rng, []string{"Connection", "Connection", "connection", "CONNECTION"}), l})
	}
	// shuffle everything but keep it deterministic
	rng.Shuffle(len(hs), func(i, j int) { hs[i], hs[j] = hs[j], hs[i] })

	// body
	q.BodyKind = "none"
	canBody := q.Method == "POST" || q.Method == "PUT" || q.Method == "PATCH" || q.Method == "DELETE"
	switch {
	case canBody && rng.IntN(100) < 8 && q.Proto == "HTTP/1.1":
		q.BodyKind = "chunked"
		hs = append(hs, hdr{"Transfer-Encoding", "chunked"})
		tr := ""
		if rng.IntN(2) == 0 {
			q.BodyKind = "chunked+forged-trailer"
			v := forgedValue(rng, "X-Real-Ip")
			hs = append(hs, hdr{"Trailer", "X-Real-IP"})
			tr = "X-Real-IP: " + v + "\r\n"
			q.Forged["Trailer:X-Real-Ip"] = append(q.Forged["Trailer:X-Real-Ip"], v)
		}
		q.Body = "5\r\nhello\r\n3\r\nabc\r\n0\r\n" + tr + "\r\n"
	case canBody && rng.IntN(100) < 70, !canBody && rng.IntN(100) < 4:
		q.BodyKind = "content-length"
		n := rng.IntN(48)
		q.Body = strings.Repeat("x", n)
		if formBody != "" {
			q.Body, n = formBody, len(formBody)
		}
		hs = append(hs, hdr{pick(rng, []string{"Content-Length", "content-length"}), strconv.Itoa(n)})
	}

	// rare malformed header blocks: the server itself rejects these
	if q.Lenient == "" && !noClose && rng.IntN(100) < 2 {
		switch rng.IntN(3) {
		case 0:
			hs = append(hs, hdr{"X-Real-IP ", "203.0.113.77"})
			q.Lenient = "header name with trailing space"
		case 1:
			hs = append(hs, hdr{"Host", "second.example"})
			q.Lenient = "two Host headers"
		case 2:
			hs = append(hs, hdr{"X-Forwarded-For", "203.0.113.78\x00"})
			q.Lenient = "NUL in header value"
		}
	}
	q.Headers = hs
}

func genCase(r *vkit.Run, idx int, hostOfService string, localIPs []string) caseT {
	rng := r.Rand("case", idx)
	c := caseT{Idx: idx, LocalIP: localIPs[rng.IntN(len(localIPs))]}
	n := 1
	if rng.IntN(100) < 7 {
		n = 2
	}
	for k := 0; k < n; k++ {
		q := reqT{Proto: "HTTP/1.1", Token: fmt.Sprintf("%d.%d", idx, k)}
		p := genPath(rng)
		q.PathMode = p.Mode
		q.Method, q.MethodKind, q.Lenient = genMethod(rng, p.Method)
		// "hinted": a clean documented path, a method other than the
		// documented one, and a header / parameter that names a method (mostly
		// the documented one) where a routing shortcut could pick it up
		hinted := rng.IntN(100) < 9
		if hinted {
			segs, m := genTemplate(rng)
			p = pathT{join(segs), m, "hinted"}
			q.PathMode, q.Lenient = p.Mode, ""
			q.Method = pick(rng, []string{"OPTIONS", "OPTIONS", "OPTIONS", "HEAD", "PUT", "DELETE", "PATCH", "get", "post", "options", "TRACE", "GET", "POST"})
			q.MethodKind = "hinted:" + q.Method
			if q.Method == m {
				// the documented method itself: name the other one
				p.Method = map[string]string{"GET": "POST", "POST": "GET"}[m]
			}
		}
		target := p.Path
		if rng.IntN(100) < 30 {
			target += pick(rng, []string{"?a=b", "?x=/../..", "?", "?q=%2e%2e/", "?a=1;b=2", "?/linkip/a/b", "?status", "?d=" + genID(rng), "?%zz", "?a=b?c=d"})
		}
		switch weighted(rng, "origin", 86, "absolute", 10, "odd", 4) {
		case "absolute":
			if !strings.HasPrefix(target, "/") && !strings.HasPrefix(target, "?") && target != "" {
				break
			}
			target = pick(rng, []string{"http://", "http://", "HTTP://", "https://"}) +
				pick(rng, []string{"evil.example", hostOfService, "linkip.example:8080", "127.0.0.1:1", "[::1]:8080"}) + target
		case "odd":
			if n == 1 {
				switch rng.IntN(4) {
				case 0:
					target, q.Lenient = "*", "asterisk-form target"
				case 1:
					target, q.Lenient = strings.TrimPrefix(target, "/"), "target without leading slash"
					if target == "" {
						target = "linkip/a/b"
					}
				case 2:
					target, q.Lenient = "example.com:443", "authority-form target"
				case 3:
					bad := pick(rng, []string{"%zz", "%2", "%", "%g1"})
					if i := strings.IndexByte(target, '?'); i >= 0 {
						target = target[:i] + bad + target[i:]
					} else {
						target += bad
					}
					q.Lenient = "invalid percent-escape in path"
				}
			}
		}
		if !strings.HasPrefix(target, "/") && !absRe.MatchString(target) {
			if n == 2 {
				// keep two-request connections well-formed
				target = "/" + target
			} else if q.Lenient == "" {
				q.Lenient = "empty or relative request target"
			}
		}
		q.Target = target
		if n == 1 && q.Lenient == "" && rng.IntN(100) < 4 {
			q.Proto = "HTTP/1.0"
		}
		if n == 2 && q.Lenient != "" {
			// keep two-request connections well-formed: replace an invalid method
			q.Method, q.MethodKind, q.Lenient = "FOO", "garbage", ""
		}
		docMethod := ""
		if strings.HasPrefix(p.Mode, "template") || p.Mode == "hinted" || p.Mode == "multienc" || p.Mode == "escape" {
			docMethod = p.Method
		}
		genHeaders(rng, &q, hostOfService, n == 2 && k == 0, docMethod, hinted)
		c.Reqs = append(c.Reqs, q)
	}
	return c
}

// fixedCases are hand-written requests that come first (case indices
// 0..len-1): the documented shapes, the near misses of the repository's own
// test and the plainest forms of the hostile inputs, so that the first witness
// of a violation class is the most readable one.
func fixedCases(ipsFor func(idx int) []string) []caseT {
	type fc struct {
		m, target string
		hs        []hdr
	}
	forged := []hdr{{"CF-Connecting-IP", "203.0.113.1"}, {"Forwarded", "for=203.0.113.2"}, {"True-Client-IP", "203.0.113.3"},
		{"X-Forwarded-For", "203.0.113.4"}, {"X-Forwarded-Host", "evil4.example"}, {"X-Forwarded-Proto", "https"},
		{"X-Real-IP", "203.0.113.5"}, {"X-Connecting-IP", "203.0.113.6"}}
	list := []fc{
		{"GET", "/linkip/dev1234/0123456789", nil},
		{"GET", "/linkip/dev1234/0123456789/status", forged},
		{"POST", "/ddns/dev1234/0123456789/example.com", forged},
		{"POST", "/linkip/dev1234/0123456789", forged},
		{"GET", "/some/other/path", forged},
		{"GET", "/robots.txt", nil},
		{"GET", "/linkip/dev1234/0123456789/status/more/stuff", forged},
		{"DELETE", "/linkip/dev1234/0123456789/status", forged},
		{"GET", "/linkip/../secret", nil},
		{"POST", "/ddns/../../admin", nil},
		{"GET", "/linkip/%2e%2e/secret", nil},
		{"GET", "/linkip/dev1234/0123456789", []hdr{{"Connection", "close, X-Connecting-Ip"}}},
		{"POST", "/ddns/dev1234/0123456789/example.com", []hdr{{"Connection", "X-Connecting-IP"}, {"X-Connecting-IP", "203.0.113.7"}}},
		{"PUT", "/linkip/dev1234/0123456789", nil},
		{"GET", "/ddns/dev1234/0123456789/example.com", nil},
		{"POST", "/ddns/dev1234/0123456789/example.com/extra", nil},
		{"GET", "/linkip/dev1234", nil},
		{"get", "/linkip/dev1234/0123456789", nil},
		{"GET", "//linkip/dev1234/0123456789", nil},
		{"GET", "http://evil.example/linkip/dev1234/0123456789", forged},
		{"GET", "/linkip/%252e%252e/admin", nil},
		{"POST", "/ddns/%252E%252E/%252e%252e/admin", nil},
		{"GET", "/linkip/dev1234/x%252f..%252f..%252f..%252fadmin%252fusers", nil},
		{"POST", "/linkip/dev1234/a%252Fb%252Fc", nil},
		{"GET", "/linkip/%25252e%25252e/admin/status", nil},
		{"POST", "/ddns/dev1234/0123456789/%252e%252e", nil},
	}
	for _, pth := range []string{"/ddns/dev1234/0123456789", "/ddns/dev1234/", "/ddns//", "/ddns/dev1234", "/ddns", "/ddns/",
		"/linkip/dev1234", "/linkip/", "/linkip//", "/linkip"} {
		list = append(list, fc{"POST", pth, nil}, fc{"GET", pth, nil})
	}
	cors := func(m string) []hdr {
		return []hdr{{"Origin", "https://adguard-dns.io"}, {"Access-Control-Request-Method", m}}
	}
	list = append(list,
		fc{"OPTIONS", "/ddns/dev1234/0123456789/example.com", cors("POST")},
		fc{"OPTIONS", "/linkip/dev1234/0123456789", cors("GET")},
		fc{"OPTIONS", "/linkip/dev1234/0123456789/status", cors("GET")},
		fc{"OPTIONS", "/linkip/dev1234/0123456789", cors("POST")},
		fc{"PUT", "/linkip/dev1234/0123456789", []hdr{{"X-HTTP-Method-Override", "POST"}}},
		fc{"HEAD", "/linkip/dev1234/0123456789/status", []hdr{{"X-HTTP-Method", "GET"}}},
		fc{"DELETE", "/ddns/dev1234/0123456789/example.com?_method=POST", []hdr{{"X-Method-Override", "POST"}}},
		fc{"GET", "/ddns/dev1234/0123456789/example.com", []hdr{{"X-HTTP-Method-Override", "POST"}}},
	)
	// the root path, the robots file and static paths: 6 consecutive copies of
	// each, so that every service configuration (case index mod 6) sees each
	for _, f := range []fc{{"GET", "/", nil}, {"POST", "/", nil}, {"GET", "/?x=1", nil}, {"HEAD", "/", nil}, {"GET", "//", nil},
		{"GET", "/robots.txt", nil}, {"GET", "/favicon.ico", nil}, {"GET", "/index.html", nil}, {"GET", "/dnscheck/test", nil}} {
		for i := 0; i < 6; i++ {
			list = append(list, f)
		}
	}
	var out []caseT
	for i, f := range list {
		q := reqT{Method: f.m, Target: f.target, Proto: "HTTP/1.1", MethodKind: "fixed", PathMode: "fixed-list",
			HdrKind: "fixed", ConnKind: "fixed", BodyKind: "none", Token: fmt.Sprintf("%d.0", i), Forged: map[string][]string{}}
		q.Headers = append([]hdr{{"Host", "linkip.example"}, {"X-Verif-Case", q.Token}}, f.hs...)
		for _, h := range f.hs {
			canon := http.CanonicalHeaderKey(h.Name)
			if canon == "Connection" {
				q.ConnKind = "fixed:" + h.Value
				for _, n := range strings.Split(h.Value, ",") {
					if n = strings.TrimSpace(n); !strings.EqualFold(n, "close") {
						q.ConnNames = append(q.ConnNames, http.CanonicalHeaderKey(n))
					}
				}
				continue
			}
			switch canon {
			case "Origin":
				continue
			case "Access-Control-Request-Method":
				q.HintKind, q.HintMethod = "cors-preflight", h.Value
				continue
			case "X-Http-Method-Override", "X-Http-Method", "X-Method-Override":
				q.HintKind, q.HintMethod = strings.ToLower(canon), h.Value
				continue
			}
			q.Forged[canon] = append(q.Forged[canon], h.Value)
		}
		if f.m == "POST" {
			q.Headers = append(q.Headers, hdr{"Content-Length", "0"})
		}
		localIPs := ipsFor(i)
		out = append(out, caseT{Idx: i, LocalIP: localIPs[(i/7)%len(localIPs)], Reqs: []reqT{q}})
	}
	return out
}

func (q *reqT) wire() []byte {
	var b strings.Builder
	b.WriteString(q.Method + " " + q.Target + " " + q.Proto + "\r\n")
	for _, h := range q.Headers {
		b.WriteString(h.Name + ": " + h.Value + "\r\n")
	}
	b.WriteString("\r\n")
	b.WriteString(q.Body)
	return []byte(b.String())
}

// ---------------------------------------------------------------------------
// Fixture: real service, recording back-end, recording error collector.

type backendRec struct {
	Method     string      `json:"method"`
	RequestURI string      `json:"request_uri"`
	Host       string      `json:"host"`
	Proto      string      `json:"proto"`
	Header     http.Header `json:"header"`
	Trailer    http.Header `json:"trailer,omitempty"`
	BodyLen    int         `json:"body_len"`
}

type errColl struct {
	mu   sync.Mutex
	errs []string
}

func (e *errColl) Collect(_ context.Context, err error) {
	e.mu.Lock()
	e.errs = append(e.errs, err.Error())
	e.mu.Unlock()
}

func (e *errColl) count() int { e.mu.Lock(); defer e.mu.Unlock(); return len(e.errs) }

// spec is one configuration an operator can write for the web service.
type spec struct {
	Name         string   `json:"name"`
	Base         string   `json:"target_url_path"`     // path of the target URL ("" or "/api/v1")
	Bind         string   `json:"linked_ip_bind_host"` // "127.0.0.1", "::" (dual stack) or a zoned link-local address
	RootRedirect bool     `json:"root_redirect_url_set"`
	ErrorPages   bool     `json:"error_pages_set"`
	Static       bool     `json:"static_content_set"`
	NonDoH       bool     `json:"non_doh_bind_set"`
	ClientIPs    []string `json:"client_addresses"`
}

const rootRedirectTarget = "https://root-redirect.example/landing"

// staticPaths are served by the static-content handler of the "full"
// configurations (never on the linked-IP addresses, per doc/http.md).
var staticPaths = []string{"/favicon.ico", "/.well-known/security.txt", "/index.html"}

type fixture struct {
	spec
	port    int
	svcAddr string // host:port of the linked-IP server
	base    string // path of the target URL ("" or "/api/v1")
	backend *http.Server
	beAddr  string
	svc     *websvc.Service
	ec      *errColl

	mu        sync.Mutex
	recs      []backendRec
	accounted int // records up to here are claimed by client requests or swept
	unsol     []unsolicited
	refreshes int
	closed    bool
}

// unsolicited is a request that the back-end received while no client request
// was outstanding on the service.
type unsolicited struct {
	Phase string     `json:"phase"`
	Rec   backendRec `json:"backend_received"`
}

// sweep accounts every back-end record that no client request has claimed to
// the given phase of the service's life.  Client requests claim their records
// in runCase (one client request at a time per fixture).
func (f *fixture) sweep(phase string) {
	f.mu.Lock()
	defer f.mu.Unlock()
	for _, rec := range f.recs[f.accounted:] {
		f.unsol = append(f.unsol, unsolicited{Phase: phase, Rec: rec})
	}
	f.accounted = len(f.recs)
}

func (f *fixture) claim() { f.mu.Lock(); f.accounted = len(f.recs); f.mu.Unlock() }

// refresh calls the service's Refresh entry point (internal/cmd does so at
// start-up, periodically and through the debug API) while the back-end records.
func (f *fixture) refresh(phase string) error {
	ctx, cancel := context.WithTimeout(context.Background(), 30*time.Second)
	defer cancel()
	err := f.svc.Refresh(ctx)
	f.mu.Lock()
	f.refreshes++
	f.mu.Unlock()
	f.sweep(phase)
	return err
}

func (f *fixture) taken() int { f.mu.Lock(); defer f.mu.Unlock(); return len(f.recs) }
func (f *fixture) since(n int) []backendRec {
	f.mu.Lock()
	defer f.mu.Unlock()
	return append([]backendRec(nil), f.recs[n:]...)
}

func (f *fixture) ServeHTTP(w http.ResponseWriter, r *http.Request) {
	body, _ := io.ReadAll(io.LimitReader(r.Body, 1<<20))
	rec := backendRec{Method: r.Method, RequestURI: r.RequestURI, Host: r.Host, Proto: r.Proto,
		Header: r.Header.Clone(), Trailer: r.Trailer.Clone(), BodyLen: len(body)}
	f.mu.Lock()
	f.recs = append(f.recs, rec)
	f.mu.Unlock()
	w.Header().Set("Server", "c19-backend")
	w.Header().Set("Content-Type", "text/plain")
	_, _ = io.WriteString(w, "backend-ok\n")
}

// freePort picks a port outside the kernel's ephemeral range (so that no
// concurrently running process can be handed it by connect/bind(0)) and
// verifies that it is free.
func freePort(salt int, probe func(port int) bool) (int, error) {
	lo, hi := 32768, 60999
	if b, err := os.ReadFile("/proc/sys/net/ipv4/ip_local_port_range"); err == nil {
		_, _ = fmt.Sscanf(string(b), "%d %d", &lo, &hi)
	}
	for attempt := 0; attempt < 400; attempt++ {
		p := 12000 + (os.Getpid()*37+salt*997+attempt*4099)%18000
		if p >= lo && p <= hi {
			continue
		}
		if probe(p) {
			return p, nil
		}
	}
	return 0, fmt.Errorf("no free port outside the ephemeral range %d-%d", lo, hi)
}

func canListen(network, hostport string) bool {
	ln, err := net.Listen(network, hostport)
	if err != nil {
		return false
	}
	_ = ln.Close()
	return true
}

// dialAddr is the address a client with the given local address connects to.
func (f *fixture) dialAddr(localIP string) string {
	if f.Bind != "::" {
		return f.svcAddr
	}
	if a, err := netip.ParseAddr(localIP); err == nil && a.Is4() {
		return net.JoinHostPort("127.0.0.1", strconv.Itoa(f.port))
	}
	return net.JoinHostPort("::1", strconv.Itoa(f.port))
}

func newFixture(salt int, sp spec) (*fixture, error) {
	f := &fixture{ec: &errColl{}, base: sp.Base, spec: sp}
	ln, err := net.Listen("tcp4", "127.0.0.1:0")
	if err != nil {
		return nil, err
	}
	f.beAddr = ln.Addr().String()
	f.backend = &http.Server{Handler: f, ReadHeaderTimeout: time.Minute}
	go func() { _ = f.backend.Serve(ln) }()

	f.port, err = freePort(salt, func(p int) bool {
		hp := net.JoinHostPort(sp.Bind, strconv.Itoa(p))
		if sp.Bind == "::" {
			return canListen("tcp", hp) && canListen("tcp4", "127.0.0.1:"+strconv.Itoa(p))
		}
		return canListen("tcp", hp)
	})
	if err != nil {
		return nil, err
	}
	f.svcAddr = net.JoinHostPort(sp.Bind, strconv.Itoa(f.port))
	conf := &websvc.Config{
		LinkedIP: &websvc.LinkedIPServer{
			TargetURL: &url.URL{Scheme: "http", Host: f.beAddr, Path: sp.Base},
			Bind:      []*websvc.BindData{{Address: netip.MustParseAddrPort(f.svcAddr)}},
		},
		StaticContent: http.NotFoundHandler(),
		DNSCheck:      http.NotFoundHandler(),
		ErrColl:       f.ec,
		Timeout:       60 * time.Second,
	}
	if sp.RootRedirect {
		conf.RootRedirectURL, _ = url.Parse(rootRedirectTarget)
	}
	if sp.ErrorPages {
		conf.Error404 = []byte("<html><body>custom 404 page</body></html>")
		conf.Error500 = []byte("<html><body>custom 500 page</body></html>")
	}
	if sp.Static {
		sc := websvc.StaticContent{}
		for _, p := range staticPaths {
			sc[p] = &websvc.StaticFile{Headers: http.Header{"Content-Type": {"text/plain"}}, Content: []byte("static content of " + p + "\n")}
		}
		conf.StaticContent = sc
		conf.DNSCheck = http.HandlerFunc(func(w http.ResponseWriter, _ *http.Request) {
			_, _ = io.WriteString(w, `{"client_ip":"192.0.2.1"}`)
		})
	}
	if sp.NonDoH {
		np, perr := freePort(salt+50, func(p int) bool { return canListen("tcp4", "127.0.0.1:"+strconv.Itoa(p)) })
		if perr != nil {
			return nil, perr
		}
		conf.NonDoHBind = []*websvc.BindData{{Address: netip.MustParseAddrPort("127.0.0.1:" + strconv.Itoa(np))}}
	}
	f.svc = websvc.New(conf)
	if f.svc == nil {
		return nil, fmt.Errorf("websvc.New returned nil")
	}
	f.sweep("websvc.New")
	if err = f.refresh("Service.Refresh (initial, before Start)"); err != nil {
		return nil, err
	}
	if err = f.svc.Start(context.Background()); err != nil {
		return nil, err
	}
	deadline := time.Now().Add(20 * time.Second)
	for {
		c, derr := net.DialTimeout("tcp", f.dialAddr(sp.ClientIPs[0]), time.Second)
		if derr == nil {
			_ = c.Close()
			f.sweep("Service.Start")
			return f, nil
		}
		if time.Now().After(deadline) {
			return nil, fmt.Errorf("linked-IP server did not come up on %s: %v", f.svcAddr, derr)
		}
		time.Sleep(20 * time.Millisecond)
	}
}

func (f *fixture) close() {
	if f.closed {
		return
	}
	f.closed = true
	ctx, cancel := context.WithTimeout(context.Background(), 10*time.Second)
	defer cancel()
	_ = f.svc.Shutdown(ctx)
	f.sweep("Service.Shutdown")
	_ = f.backend.Close()
}

// ---------------------------------------------------------------------------
// Raw client.

type respT struct {
	Status int         `json:"status"`
	Header http.Header `json:"header,omitempty"`
	Body   string      `json:"body,omitempty"`
	Err    string      `json:"error,omitempty"`
}

type outcome struct {
	C        caseT
	Fixture  int
	Base     string
	Spec     spec
	Peer     string // address the service saw: our local address
	DialErr  string
	Resps    []respT
	RecsBy   [][]backendRec // per request: what the back-end recorded while it was outstanding
	Late     []backendRec   // recorded after the last response was complete
	ProxyErr []string
	Timeout  bool
	// Retry[k] is set when request k got no response at all and was sent once
	// more, alone, on a fresh connection, header block first.
	Retry map[int]*retryT
}

type retryT struct {
	Resp           respT        `json:"response"`
	ClosedOnHeader bool         `json:"connection_closed_after_header_block_only"`
	Recs           []backendRec `json:"backend_received,omitempty"`
}

func runCase(f *fixture, fi int, c caseT) outcome {
	o := outcome{C: c, Fixture: fi, Base: f.base, Spec: f.spec}
	f.sweep("idle (no client request outstanding)")
	defer f.claim()
	n0, e0 := f.taken(), f.ec.count()
	la := &net.TCPAddr{IP: net.ParseIP(c.LocalIP)}
	if a, perr := netip.ParseAddr(c.LocalIP); perr == nil {
		la = &net.TCPAddr{IP: a.AsSlice(), Zone: a.Zone()}
	}
	d := net.Dialer{LocalAddr: la, Timeout: 20 * time.Second}
	var conn net.Conn
	var err error
	for try := 0; try < 3; try++ {
		if conn, err = d.Dial("tcp", f.dialAddr(c.LocalIP)); err == nil {
			break
		}
		time.Sleep(50 * time.Millisecond)
	}
	if err != nil {
		o.DialErr = err.Error()
		return o
	}
	defer func() {
		// reset instead of FIN: no TIME_WAIT on the client side, so that large
		// case lists do not exhaust the per-address ephemeral ports
		if tc, ok := conn.(*net.TCPConn); ok {
			_ = tc.SetLinger(0)
		}
		_ = conn.Close()
	}()
	o.Peer = conn.LocalAddr().String()
	_ = conn.SetDeadline(time.Now().Add(60 * time.Second))
	br := bufio.NewReader(conn)
	o.RecsBy = make([][]backendRec, len(c.Reqs))
	for i := range c.Reqs {
		// One request at a time: everything the back-end records between the
		// write and the complete response belongs to this request.
		nb := f.taken()
		_, werr := conn.Write(c.Reqs[i].wire())
		resp, rerr := http.ReadResponse(br, &http.Request{Method: c.Reqs[i].Method})
		for rerr == nil && resp.StatusCode >= 100 && resp.StatusCode < 200 && resp.StatusCode != http.StatusSwitchingProtocols {
			// interim response (100 Continue for "Expect: 100-continue")
			resp, rerr = http.ReadResponse(br, &http.Request{Method: c.Reqs[i].Method})
		}
		if rerr != nil {
			rt := respT{Err: rerr.Error()}
			if werr != nil {
				rt.Err += "; write: " + werr.Error()
			}
			if ne, ok := rerr.(net.Error); ok && ne.Timeout() {
				o.Timeout = true
			}
			o.Resps = append(o.Resps, rt)
			o.RecsBy[i] = f.since(nb)
			break
		}
		body, berr := io.ReadAll(io.LimitReader(resp.Body, 1<<16))
		_ = resp.Body.Close()
		rt := respT{Status: resp.StatusCode, Header: resp.Header, Body: string(body)}
		if berr != nil {
			rt.Err = "body: " + berr.Error()
			if ne, ok := berr.(net.Error); ok && ne.Timeout() {
				o.Timeout = true
			}
		}
		o.Resps = append(o.Resps, rt)
		o.RecsBy[i] = f.since(nb)
		if resp.Close || berr != nil {
			break
		}
	}
	o.Late = f.since(n0 + func() (n int) {
		for _, x := range o.RecsBy {
			n += len(x)
		}
		return n
	}())
	// A connection that is closed without any response: once more on a fresh
	// connection to exclude transport noise.  The header block goes first and
	// the body only if nothing comes back, so that a reset caused by an unread
	// request body cannot hide the response.
	for k := range o.Resps {
		if o.Resps[k].Status != 0 || o.Resps[k].Err == "" || o.Timeout || c.Reqs[k].Lenient != "" {
			continue
		}
		if o.Retry == nil {
			o.Retry = map[int]*retryT{}
		}
		o.Retry[k] = retryOnce(f, la, c.LocalIP, &c.Reqs[k])
	}
	if e1 := f.ec.count(); e1 > e0 {
		f.ec.mu.Lock()
		o.ProxyErr = append([]string(nil), f.ec.errs[e0:e1]...)
		f.ec.mu.Unlock()
	}
	return o
}

func retryOnce(f *fixture, la *net.TCPAddr, localIP string, q *reqT) *retryT {
	rt := &retryT{}
	nb := f.taken()
	defer func() { rt.Recs = f.since(nb) }()
	d := net.Dialer{LocalAddr: la, Timeout: 20 * time.Second}
	conn, err := d.Dial("tcp", f.dialAddr(localIP))
	if err != nil {
		rt.Resp.Err = "dial: " + err.Error()
		return rt
	}
	defer func() {
		if tc, ok := conn.(*net.TCPConn); ok {
			_ = tc.SetLinger(0)
		}
		_ = conn.Close()
	}()
	w := q.wire()
	head := w[:len(w)-len(q.Body)]
	_, _ = conn.Write(head)
	br := bufio.NewReader(conn)
	bodySent := len(q.Body) == 0
	_ = conn.SetReadDeadline(time.Now().Add(2 * time.Second))
	if _, perr := br.Peek(1); perr != nil {
		if ne, ok := perr.(net.Error); ok && ne.Timeout() {
			// the handler waits for the body (a forwarded request)
			_, _ = conn.Write([]byte(q.Body))
			bodySent = true
		} else {
			rt.Resp.Err = perr.Error()
			rt.ClosedOnHeader = !bodySent || len(q.Body) == 0
			return rt
		}
	}
	_ = conn.SetReadDeadline(time.Now().Add(60 * time.Second))
	resp, rerr := http.ReadResponse(br, &http.Request{Method: q.Method})
	for rerr == nil && resp.StatusCode >= 100 && resp.StatusCode < 200 && resp.StatusCode != http.StatusSwitchingProtocols {
		if !bodySent {
			_, _ = conn.Write([]byte(q.Body))
			bodySent = true
		}
		resp, rerr = http.ReadResponse(br, &http.Request{Method: q.Method})
	}
	if rerr != nil {
		rt.Resp.Err = rerr.Error()
		return rt
	}
	body, _ := io.ReadAll(io.LimitReader(resp.Body, 1<<16))
	_ = resp.Body.Close()
	rt.Resp = respT{Status: resp.StatusCode, Header: resp.Header, Body: string(body)}
	return rt
}

// ---------------------------------------------------------------------------
// Oracle.

func trunc(s string, n int) string {
	if len(s) <= n {
		return s
	}
	return s[:n/2] + fmt.Sprintf("…[%d bytes]…", len(s)-n/2*2) + s[len(s)-n/2:]
}

func segClass(s string) string {
	l := strings.ToLower(s)
	switch {
	case s == "":
		return "empty"
	case s == ".":
		return "dot"
	case s == "..":
		return "dotdot"
	case s == "linkip" || s == "ddns":
		return s
	case s == "status":
		return "status"
	case len(s) > 200:
		return "long"
	case multiEncoded("/" + s):
		if strings.Contains(deepDecode(s), "/") {
			return "multienc-slash"
		}
		return "multienc-dots"
	case pctDecode(s, true) == "." || pctDecode(s, true) == "..":
		return "encdots"
	case strings.Contains(l, "%2f"):
		return "encslash"
	case strings.Contains(s, "%"):
		return "pct"
	}
	for i := 0; i < len(s); i++ {
		if s[i] >= 0x80 {
			return "utf8"
		}
		if !isUnreserved(s[i]) {
			return "special"
		}
	}
	if strings.Contains(s, ".") {
		return "dotted"
	}
	return "id"
}

func classKey(q *reqT, v verdict) string {
	var ks []string
	for _, s := range segments(v.Path) {
		ks = append(ks, segClass(s))
	}
	var fs []string
	for h := range q.Forged {
		fs = append(fs, h)
	}
	sort.Strings(fs)
	_, _, query := splitTarget(q.Target)
	return fmt.Sprintf("%s|%s|/%s|q=%v|fwd=%s|conn=%s|body=%s|%s|hint=%s:%s", q.MethodKind+":"+q.Method, v.Form,
		strings.Join(ks, "/"), query != "" || strings.HasSuffix(q.Target, "?"), strings.Join(fs, ","), q.ConnKind, q.BodyKind, q.Proto,
		q.HintKind, q.HintMethod)
}

// clientSupplied reports whether a header value seen by the back-end repeats a
// value that the client put into one of its forwarding headers.
func clientSupplied(q *reqT, val string) (string, bool) {
	for h, vs := range q.Forged {
		for _, fv := range vs {
			if val == fv || len(fv) >= 6 && strings.Contains(val, fv) {
				return h, true
			}
			for _, tok := range strings.Split(val, ",") {
				if strings.TrimSpace(tok) == fv {
					return h, true
				}
			}
		}
	}
	return "", false
}

func hostOf(addr string) string {
	if ap, err := netip.ParseAddrPort(addr); err == nil {
		return ap.Addr().Unmap().String()
	}
	if a, err := netip.ParseAddr(addr); err == nil {
		return a.Unmap().String()
	}
	return addr
}

// samePeer compares the client-IP header value with the address the client
// connected from.  For a zoned (link-local) peer the value may carry the zone
// or not; everything else must be the same address.
func samePeer(val, peer string, r *vkit.Run) bool {
	if hostOf(val) == peer {
		return true
	}
	a, err1 := netip.ParseAddr(hostOf(val))
	b, err2 := netip.ParseAddr(peer)
	if err1 == nil && err2 == nil && b.Zone() != "" && a.Zone() == "" && a == b.WithZone("") {
		r.Bucket("client_ip_header_without_the_peers_zone", 1)
		return true
	}
	return false
}

type judge struct {
	r        *vkit.Run
	peersFwd map[string]struct{}
}

func (j *judge) witness(o *outcome, k int, v verdict, extra map[string]any) map[string]any {
	q := &o.C.Reqs[k]
	w := map[string]any{
		"case_index":       o.C.Idx,
		"request_in_case":  k,
		"client_address":   o.Peer,
		"raw_request":      trunc(string(q.wire()), 900),
		"method":           q.Method,
		"target":           trunc(q.Target, 300),
		"model":            v,
		"target_url_path":  o.Base,
		"service_config":   o.Spec,
		"backend_received": o.RecsBy[k],
		"generator":        map[string]any{"path_mode": q.PathMode, "hdr_kind": q.HdrKind, "conn_kind": q.ConnKind, "body_kind": q.BodyKind, "lenient": q.Lenient, "hint_kind": q.HintKind, "hint_method": q.HintMethod},
	}
	if k < len(o.Resps) {
		rs := o.Resps[k]
		rs.Body = trunc(rs.Body, 200)
		w["response"] = rs
	}
	if len(o.C.Reqs) > 1 {
		w["same_connection_as"] = trunc(string(o.C.Reqs[1-k].wire()), 500)
	}
	for a, b := range extra {
		w[a] = b
	}
	return w
}

func (j *judge) evaluate(o *outcome) {
	r := j.r
	if o.DialErr != "" {
		r.Bucket("dial_errors", 1)
		return
	}
	if o.Timeout {
		r.Bucket("watchdog_timeouts", 1)
		return
	}
	if len(o.Late) > 0 {
		// cannot happen with a back-end that records before it answers; if
		// it does, the records are judged with the last request
		r.Bucket("backend_requests_after_response", int64(len(o.Late)))
		last := len(o.Resps) - 1
		if last < 0 {
			last = 0
		}
		o.RecsBy[last] = append(o.RecsBy[last], o.Late...)
	}
	peerIP := hostOf(o.Peer)
	for k := range o.C.Reqs {
		q := &o.C.Reqs[k]
		v := classify(q.Method, q.Target)
		recs := o.RecsBy[k]
		contacted := len(recs) > 0
		r.Eval(classKey(q, v), v.APIFirst || contacted)
		r.Bucket("requests_sent", 1)
		r.Bucket("model_"+v.Expect, 1)
		r.Bucket("form_"+v.Form, 1)
		r.Bucket("method_kind_"+q.MethodKind, 1)
		if v.HasDot {
			r.Bucket("dot_segment_requests_sent", 1)
		}
		r.Bucket("requests_on_config:"+o.Spec.Name, 1)
		decodedPath := pctDecode(v.Path, false)
		if o.Spec.RootRedirect && decodedPath == "/" && q.Lenient == "" {
			r.Bucket("root_path_requests_on_root_redirect_config", 1)
		}
		if o.Spec.Static && q.Lenient == "" {
			for _, sp := range staticPaths {
				if decodedPath == sp {
					r.Bucket("static_path_requests_on_static_content_config", 1)
				}
			}
		}
		if q.HintKind != "" {
			r.Bucket("routing_hint_requests_sent", 1)
			r.Bucket("hint:"+q.HintKind, 1)
			// does the hint name the method that would make this very target a
			// clean documented request, while the request line does not?
			if q.Method != "GET" && q.Method != "POST" && classify(q.HintMethod, q.Target).Expect == "must" {
				r.Bucket("hint_names_documented_method_on_non_get_post_request", 1)
				if q.Method == "OPTIONS" && q.HintKind == "cors-preflight" {
					r.Bucket("options_preflight_naming_documented_method_on_documented_path", 1)
				}
			}
			if (q.Method == "GET" || q.Method == "POST") && q.HintMethod != q.Method && v.Expect == "mustnot" &&
				classify(q.HintMethod, q.Target).Expect == "must" {
				r.Bucket("hint_names_documented_method_on_get_post_request_of_wrong_shape", 1)
			}
			if contacted {
				r.Bucket("routing_hint_requests_forwarded", 1)
			}
		}
		if dsegs := segments(decodedPath); (q.Method == "GET" || q.Method == "POST") && len(dsegs) >= 1 && len(dsegs) <= 3 &&
			(dsegs[0] == "linkip" || dsegs[0] == "ddns") && q.Lenient == "" {
			r.Bucket("short_api_path_requests_sent", 1)
			if q.Method == "POST" && dsegs[0] == "ddns" && len(dsegs) == 3 {
				r.Bucket("post_ddns_three_segments_sent", 1)
			}
		}
		multi := multiEncoded(v.Path)
		if multi {
			r.Bucket("multi_encoded_requests_sent", 1)
		}
		if q.Lenient != "" {
			r.Bucket("lenient_requests", 1)
		}
		if len(o.ProxyErr) > 0 {
			// the proxy reported a transport error talking to the back-end;
			// whether the back-end saw the request is then not decidable
			r.Bucket("ambiguous_proxy_transport_error", 1)
		}
		answered := k < len(o.Resps) && o.Resps[k].Err == "" && o.Resps[k].Status != 0
		if !answered {
			r.Bucket("requests_without_complete_response", 1)
		}
		if rt := o.Retry[k]; rt != nil {
			r.Bucket("no_response_requests_retried_on_fresh_connection", 1)
			r.Bucket("backend_requests_in_retries", int64(len(rt.Recs)))
			switch {
			case rt.Resp.Status != 0:
				r.Bucket("no_response_then_answered_on_retry", 1)
			case rt.ClosedOnHeader:
				// well-formed request (the HTTP server accepts it), twice no
				// response, the second time with nothing unread on the wire
				r.Violation("local:connection-closed-without-response:"+v.Expect+":"+v.Reason,
					"a well-formed request got no response at all: the connection was closed, again on a fresh connection after only the header block was sent (a handler panic recovered by net/http looks like this); it must be answered with 404 or proxied",
					j.witness(o, k, v, map[string]any{"retry": rt}))
			default:
				r.Bucket("no_response_twice_but_not_decidable", 1)
			}
		}

		// (1) allow-list: back-end contacted <=> documented shape
		switch {
		case v.Expect == "mustnot" && contacted:
			r.Violation("allowlist:undocumented-request-proxied:"+v.Reason,
				"the back-end was contacted for a (method, path) that is none of the four documented shapes under any reading of the path",
				j.witness(o, k, v, nil))
		case v.Expect == "must" && !contacted && q.Lenient == "" && answered && len(o.ProxyErr) == 0:
			r.Violation("allowlist:documented-request-not-proxied:"+v.Reason,
				"a plain documented request (clean path, GET/POST) was answered locally instead of being proxied",
				j.witness(o, k, v, nil))
		}
		if len(recs) > 1 {
			r.Bucket("requests_forwarded_more_than_once", 1)
			if len(o.ProxyErr) == 0 && len(o.Late) == 0 {
				r.Violation("backend:client-request-forwarded-more-than-once",
					"the back-end received more than one request while a single client request was outstanding",
					j.witness(o, k, v, map[string]any{"backend_requests": len(recs)}))
			}
		}

		// (2) invariants of every request the back-end received
		for ri := range recs {
			rec := &recs[ri]
			r.Bucket("backend_requests", 1)
			j.peersFwd[peerIP] = struct{}{}
			if pa, perr := netip.ParseAddr(peerIP); perr == nil {
				switch {
				case pa.Zone() != "":
					r.Bucket("zoned_peer_requests_forwarded", 1)
				case pa.Is6():
					r.Bucket("ipv6_peer_requests_forwarded", 1)
				case o.Spec.Bind == "::":
					r.Bucket("ipv4_peer_on_dual_stack_bind_requests_forwarded", 1)
				}
			}
			_, bp, _ := splitTarget(rec.RequestURI)
			norm := normalisePath(bp)
			dotted := norm != pctDecode(bp, true)
			if dotted {
				r.Bucket("backend_paths_with_dot_segments", 1)
			}
			// Did the proxy forward the path it checked?  What the back-end
			// decodes must be what the front decoded (one decoding each).
			bpRel := strings.TrimPrefix(bp, o.Base)
			transformed := pctDecode(bpRel, false) != pctDecode(v.Path, false)
			if transformed {
				r.Bucket("backend_path_differs_from_request_path_after_one_decoding", 1)
			}
			if multi {
				r.Bucket("multi_encoded_requests_forwarded", 1)
			}
			if !underAPI(norm, o.Base) {
				ex := map[string]any{"backend_path": trunc(bp, 300), "backend_path_normalised": trunc(norm, 300)}
				if transformed {
					ex["request_path_decoded_once"] = trunc(pctDecode(v.Path, false), 300)
					ex["backend_path_decoded_once"] = trunc(pctDecode(bpRel, false), 300)
					r.Violation("proxy:forwarded-path-differs-from-checked-path:escapes-prefix",
						"the request-target written to the back-end is not the one the client sent (it was percent-decoded again or otherwise rewritten after the allow-list ran) and leaves /linkip/ and /ddns/ after RFC 3986 normalisation",
						j.witness(o, k, v, ex))
				} else if dotted {
					ex["root_cause"] = "internal/websvc/linkip.go shouldProxy (l.173-186), shouldProxyGet/Post (l.191-206) only counts '/'-separated parts of r.URL.Path and compares parts[0]/parts[3]; '.', '..' (also sent as %2e) are accepted as {device_id}/{encrypted}/{domain}, and the rewrite (l.42-43, ProxyRequest.SetURL) forwards the path verbatim"
					ex["suggested_fix"] = "in shouldProxy return false when any part is \".\" or \"..\" (r.URL.Path is already percent-decoded, so this covers %2e%2e), or require path.Clean(urlPath) == urlPath before splitting"
					r.Violation("proxy:dot-segment-escapes-prefix",
						"a forwarded path leaves /linkip/ and /ddns/ after RFC 3986 normalisation (dot segments are proxied verbatim)",
						j.witness(o, k, v, ex))
				} else {
					r.Violation("proxy:backend-path-outside-prefix",
						"the back-end received a path that is not under /linkip/ or /ddns/", j.witness(o, k, v, ex))
				}
			} else if dotted {
				r.Bucket("backend_dotted_paths_staying_under_prefix", 1)
			}
			// The (method, path) the back-end received must itself be one of
			// the documented shapes under some reading of that path (as
			// received, or percent-decoded once; placeholders empty or not).
			shapeOK := false
			for _, sg := range [][]string{segments(bpRel), segments(pctDecode(bpRel, false))} {
				for _, ae := range []bool{false, true} {
					shapeOK = shapeOK || documentedShape(rec.Method, sg, ae)
				}
			}
			if shapeOK {
				r.Bucket("backend_requests_with_documented_shape", 1)
			} else {
				key := "proxy:backend-request-not-a-documented-shape"
				if transformed {
					key = "proxy:forwarded-path-differs-from-checked-path:not-a-documented-shape"
				}
				r.Violation(key,
					"the (method, request-target) the back-end received is none of the four documented shapes, neither as received nor percent-decoded once",
					j.witness(o, k, v, map[string]any{"backend_method": rec.Method, "backend_path": trunc(bp, 300),
						"backend_segments_decoded_once": len(segments(pctDecode(bpRel, false))),
						"request_path_decoded_once":     trunc(pctDecode(v.Path, false), 300)}))
			}

			// client-IP header
			vals := rec.Header.Values(clientIPHeader)
			named := false
			for _, n := range q.ConnNames {
				if n == clientIPHeader {
					named = true
				}
			}
			if named {
				r.Bucket("forwarded_with_connection_naming_client_ip_header", 1)
			}
			if len(q.ConnNames) > 0 {
				r.Bucket("forwarded_with_connection_naming_header", 1)
			}
			switch {
			case len(vals) == 0 && named:
				r.Violation("proxy:client-ip-header-stripped-by-connection-header",
					"a client that names X-Connecting-IP in its Connection header makes the proxy forward the request without any client-IP header",
					j.witness(o, k, v, map[string]any{
						"expected_client_ip_header": peerIP,
						"root_cause":                "internal/websvc/linkip.go ServeHTTP sets X-Connecting-Ip on the inbound request (l.147) before httputil.ReverseProxy.ServeHTTP (l.156); ReverseProxy then removes the hop-by-hop headers named in the client's Connection header from the outbound copy, which deletes the header that was just set",
						"suggested_fix":             "set the header on the outbound request inside the Rewrite func (l.42-48), e.g. take the IP from r.In.RemoteAddr: r.Out.Header.Set(httphdr.XConnectingIP, ip) - Rewrite runs after hop-by-hop removal; same for X-Request-Id",
					}))
			case len(vals) == 0:
				r.Violation("proxy:client-ip-header-missing", "a forwarded request carries no client-IP header",
					j.witness(o, k, v, map[string]any{"expected_client_ip_header": peerIP}))
			case len(vals) > 1:
				r.Violation("proxy:client-ip-header-duplicated", "a forwarded request carries more than one client-IP header value",
					j.witness(o, k, v, map[string]any{"expected_client_ip_header": peerIP, "got": vals}))
			case !samePeer(strings.TrimSpace(vals[0]), peerIP, r):
				if h, ok := clientSupplied(q, vals[0]); ok {
					r.Violation("proxy:client-ip-header-has-client-supplied-value",
						"the client-IP header seen by the back-end repeats a value the client sent in "+h+" instead of the TCP peer address",
						j.witness(o, k, v, map[string]any{"expected_client_ip_header": peerIP, "got": vals}))
				} else if _, perr := netip.ParseAddr(hostOf(strings.TrimSpace(vals[0]))); perr != nil {
					r.Violation("proxy:client-ip-header-not-an-address", "the client-IP header seen by the back-end is not an IP address at all, while the peer has one",
						j.witness(o, k, v, map[string]any{"expected_client_ip_header": peerIP, "got": vals}))
				} else {
					r.Violation("proxy:client-ip-header-wrong-value", "the client-IP header is not the TCP peer address",
						j.witness(o, k, v, map[string]any{"expected_client_ip_header": peerIP, "got": vals}))
				}
			default:
				r.Bucket("client_ip_header_correct", 1)
			}

			// forwarding headers
			forgedListed := false
			for _, h := range listedFwd {
				canon := http.CanonicalHeaderKey(h)
				if len(q.Forged[canon]) > 0 {
					forgedListed = true
				}
				for _, src := range []http.Header{rec.Header, rec.Trailer} {
					for _, val := range src.Values(canon) {
						if from, ok := clientSupplied(q, val); ok {
							r.Violation("proxy:forged-forwarding-header-forwarded:"+canon,
								"the back-end received "+h+" with a client-supplied value (sent by the client in "+from+")",
								j.witness(o, k, v, map[string]any{"header": h, "value": val}))
						} else {
							r.Bucket("proxy_generated_forwarding_header_values", 1)
						}
					}
				}
			}
			if forgedListed {
				r.Bucket("forwarded_with_forged_listed_header", 1)
			}
			if len(q.Forged[clientIPHeader]) > 0 {
				r.Bucket("forwarded_with_forged_client_ip_header", 1)
			}
			if len(q.Forged["Trailer:X-Real-Ip"]) > 0 {
				r.Bucket("forwarded_with_forged_trailer", 1)
			}
			for _, h := range unlistedFwd {
				if len(rec.Header.Values(http.CanonicalHeaderKey(h))) > 0 && len(q.Forged[http.CanonicalHeaderKey(h)]) > 0 {
					r.Bucket("observed_unlisted_header_passed_through:"+h, 1)
				}
			}
			if rec.Header.Get("X-Verif-Case") == q.Token {
				r.Bucket("backend_requests_attributed_by_token", 1)
			}
		}

		// (3) everything else is answered locally with 404 (or robots.txt)
		if !contacted && answered && len(o.ProxyErr) == 0 {
			st := o.Resps[k].Status
			decoded := pctDecode(v.Path, false)
			switch {
			case st == http.StatusNotFound:
				r.Bucket("local_404", 1)
			case decoded == "/robots.txt" && st == http.StatusOK && (o.Resps[k].Body == robotsBody || q.Method == "HEAD"):
				r.Bucket("local_robots", 1)
			case q.Lenient != "":
				r.Bucket("local_server_level_answer", 1)
			default:
				r.Violation(fmt.Sprintf("local:unexpected-status:%d", st),
					"a request that was not proxied was answered with something other than 404 / robots.txt",
					j.witness(o, k, v, nil))
			}
		}
		if contacted && answered {
			r.Bucket(fmt.Sprintf("forwarded_response_status_%d", o.Resps[k].Status), 1)
		}
		if o.C.Idx%211 == 3 && k == 0 {
			var br any
			if contacted {
				br = recs[0]
			}
			st := 0
			if answered {
				st = o.Resps[k].Status
			}
			r.Sample(map[string]any{"case_index": o.C.Idx, "client_address": o.Peer, "request": trunc(string(q.wire()), 500),
				"model": v, "status": st, "backend_received": br})
		}
	}
}

// ---------------------------------------------------------------------------

func usableLocalIPs() []string {
	var ok []string
	for _, ip := range []string{"127.0.0.2", "127.0.0.3", "127.0.0.1", "127.0.1.77", "127.200.3.4"} {
		ln, err := net.Listen("tcp4", ip+":0")
		if err != nil {
			continue
		}
		_ = ln.Close()
		ok = append(ok, ip)
	}
	return ok
}

// linkLocalAddrs returns usable zoned link-local addresses ("fe80::1%eth0"): an
// existing one of an interface that is up, or, if the machine has none, two
// addresses that are added to the loopback interface for the duration of the
// check (needs root and iproute2; undo removes them).  None: the zoned class is
// not exercised and its coverage gate makes the run inconclusive.
func linkLocalAddrs() (addrs []string, undo func()) {
	undo = func() {}
	ifs, _ := net.Interfaces()
	for _, ifc := range ifs {
		if ifc.Flags&net.FlagUp == 0 {
			continue
		}
		as, _ := ifc.Addrs()
		for _, a := range as {
			ipn, ok := a.(*net.IPNet)
			if !ok || ipn.IP.To4() != nil || !ipn.IP.IsLinkLocalUnicast() {
				continue
			}
			z := ipn.IP.String() + "%" + ifc.Name
			if canListen("tcp6", "["+z+"]:0") {
				addrs = append(addrs, z)
			}
		}
	}
	if len(addrs) > 0 && os.Getenv("VERIF_C19_FORCE_LO_LINKLOCAL") == "" { // the knob exercises the fallback below
		return addrs[:1], undo
	}
	addrs = nil
	var added []string
	undo = func() {
		for _, a := range added {
			_ = exec.Command("ip", "-6", "addr", "del", a+"/64", "dev", "lo").Run()
		}
	}
	for i := 1; i <= 2; i++ {
		a := fmt.Sprintf("fe80::c19:%x:%d", os.Getpid()&0xffff, i)
		if err := exec.Command("ip", "-6", "addr", "add", a+"/64", "dev", "lo", "nodad").Run(); err != nil {
			continue
		}
		added = append(added, a)
		if canListen("tcp6", "["+a+"%lo]:0") {
			addrs = append(addrs, a+"%lo")
		}
	}
	return addrs, undo
}

func TestCheck(t *testing.T) {
	r := vkit.Start(t, "C19", "exploration")
	defer r.Finish()
	r.Rule("108 hand-written requests (documented shapes, the repository test's near misses, plainest hostile forms, root / robots / static paths on every configuration), then seeded cases; each case = 1 (7%: 2 consecutive, keep-alive) raw HTTP/1.x request(s) on a fresh TCP connection from one of several client addresses (127/8; ::1 and 127/8 on a dual-stack bind; a zoned link-local address) to one of 6 service configurations built through websvc.New (minimal | target URL with path | root redirect + error pages + static content + DNS check + non-DoH bind | root redirect + static | dual-stack bind | zoned link-local bind + root redirect + error pages): " +
		"method {GET,POST,HEAD,PUT,DELETE,OPTIONS,PATCH,lower/mixed case,garbage tokens,non-tokens} x target " +
		"(documented template with 0-2 edits | random grammar of 0-6 segments from {id,empty,.,..,%2e%2e,%2e,%2F,status,long,utf-8/escaped,api words,encoded api words,specials,domain,double/triple-encoded dots and slashes} | a documented shape with a double/triple percent-encoded dot segment or slash (lower/upper/mixed hex) in each placeholder position | " +
		"prefix-escape patterns | fixed paths; optional query; origin/absolute/asterisk/authority/no-slash form) x header set " +
		"(7 listed forwarding headers + X-Connecting-IP + 5 unlisted ones forged, duplicated, case-varied; Connection naming them; bodies, chunked bodies with forged trailer; routing hints naming a method: Origin + Access-Control-Request-Method/-Headers (and each alone), X-HTTP-Method-Override, X-HTTP-Method, X-Method-Override, _method query / form parameter, Upgrade + Connection: upgrade, Expect: 100-continue, Content-Type variants, X-Original-URL/-Method, X-Forwarded-Method; 9% 'hinted' requests = clean documented path x non-documented method x hint naming the documented method). " +
		"distinct = (method, target form, sequence of segment classes, query?, forged header set, Connection kind, body kind, protocol); " +
		"non-trivial = first path segment is linkip/ddns under some reading of the path, or the back-end was contacted")
	r.Assume("the back-end is reached over plain HTTP on loopback and answers every request with 200")
	r.Assume("client requests are sent one at a time per service instance; Service.Refresh is called between two client requests (every 250 per instance, 3 times in a row at the end, once before Start), so every back-end record is attributable to either one client request or a phase of the service's life (New, Refresh, Start, idle, Shutdown)")
	r.Assume("header names are compared case-insensitively (the back-end sees Go's canonical form)")
	r.Assume("'must be proxied' is asserted only for clean documented shapes; targets whose raw / percent-decoded / normalised readings disagree are 'ambiguous' for the contacted<=>shape rule but still subject to every invariant on what the back-end receives")
	r.Assume("only CF-Connecting-IP, Forwarded, True-Client-IP, X-Real-IP, X-Forwarded-For/-Host/-Proto are treated as forbidden forwarding headers; X-Forwarded-Port, X-Client-IP, X-Cluster-Client-IP, Via, X-Original-Forwarded-For are generated and only counted")

	ips := usableLocalIPs()
	if len(ips) < 2 {
		r.Inconclusive(fmt.Sprintf("cannot bind at least two distinct loopback client addresses (usable: %v)", ips))
		r.Sample("no run")
		return
	}
	// The configurations an operator can write, built through websvc.New:
	// root redirect set / unset, error pages set / unset, static content and
	// DNS-check handlers, a non-DoH bind next to the linked-IP one, a target
	// URL with a path, and IPv4 / dual-stack / zoned link-local bind addresses.
	specs := []spec{
		{Name: "minimal", Bind: "127.0.0.1", ClientIPs: ips},
		{Name: "target-url-with-path", Base: "/api/v1", Bind: "127.0.0.1", ClientIPs: ips},
		{Name: "full:root-redirect+error-pages+static+non-doh", Bind: "127.0.0.1", RootRedirect: true, ErrorPages: true, Static: true, NonDoH: true, ClientIPs: ips},
		{Name: "root-redirect+static", Bind: "127.0.0.1", RootRedirect: true, Static: true, ClientIPs: ips},
	}
	if canListen("tcp6", "[::1]:0") {
		specs = append(specs, spec{Name: "dual-stack-bind", Bind: "::", ClientIPs: append([]string{"::1", "::1"}, ips[:2]...)})
	} else {
		r.Bucket("ipv6_loopback_unavailable", 1)
	}
	zoned, undo := linkLocalAddrs()
	defer undo()
	if len(zoned) > 0 {
		specs = append(specs, spec{Name: "zoned-link-local-bind+root-redirect+error-pages", Bind: zoned[0], RootRedirect: true, ErrorPages: true, ClientIPs: zoned})
	} else {
		r.Bucket("link_local_address_unavailable", 1)
	}
	workers := len(specs)
	fx := make([]*fixture, workers)
	for i := range fx {
		f, err := newFixture(i, specs[i])
		if err != nil {
			r.Inconclusive("fixture " + specs[i].Name + ": " + err.Error())
			r.Sample("no run")
			return
		}
		fx[i] = f
		defer f.close()
	}
	r.Extra("service_configurations", specs)

	fixed := fixedCases(func(idx int) []string { return specs[idx%workers].ClientIPs })
	n := r.N(30000, 600000)
	j := &judge{r: r, peersFwd: map[string]struct{}{}}
	// Cases are executed in batches by the workers (case i on fixture i mod
	// workers, strictly one case at a time per fixture) and judged in index
	// order, so that the first witness of a class does not depend on timing.
	batch := 3000 * workers
	const refreshEvery = 250 // client requests per fixture between two Refresh calls
	for lo := 0; lo < n; lo += batch {
		hi := min(lo+batch, n)
		outs := make([]outcome, hi-lo)
		var wg sync.WaitGroup
		for w := 0; w < workers; w++ {
			wg.Add(1)
			go func(w int) {
				defer wg.Done()
				for idx := lo + w; idx < hi; idx += workers {
					var c caseT
					if idx < len(fixed) {
						c = fixed[idx]
					} else {
						// the Host/absolute-form generator uses a fixed service
						// name so that a case does not depend on the allocated port
						c = genCase(r, idx, "127.0.0.1:8080", specs[w].ClientIPs)
					}
					outs[idx-lo] = runCase(fx[w], w, c)
					if (idx/workers)%refreshEvery == refreshEvery-1 {
						// the periodic / debug-API refresh, between two client requests
						if err := fx[w].refresh("Service.Refresh (while serving)"); err != nil {
							r.Bucket("service_refresh_errors", 1)
						}
					}
				}
			}(w)
		}
		wg.Wait()
		for i := range outs {
			j.evaluate(&outs[i])
		}
	}
	// The other entry points of the service, while the back-end still records:
	// Refresh several times in a row, then Shutdown.  Every request the back-end
	// ever received must have been claimed by exactly one client request.
	for i, f := range fx {
		for k := 0; k < 3; k++ {
			if err := f.refresh("Service.Refresh (repeated, after the last client request)"); err != nil {
				r.Bucket("service_refresh_errors", 1)
			}
		}
		f.close()
		f.mu.Lock()
		total, unsol, refreshes := len(f.recs), append([]unsolicited(nil), f.unsol...), f.refreshes
		f.mu.Unlock()
		r.Bucket("backend_requests_recorded_in_total", int64(total))
		r.Bucket("service_refresh_calls_while_recording", int64(refreshes))
		r.Bucket("service_lifecycles_observed_new_refresh_start_shutdown", 1)
		for _, u := range unsol {
			r.Bucket("backend_requests_unsolicited", 1)
			_, bp, _ := splitTarget(u.Rec.RequestURI)
			phaseKey := strings.ToLower(strings.Fields(u.Phase)[0])
			r.Violation("backend:unsolicited-request:"+phaseKey,
				"the back-end received a request that corresponds to no client request (sent by the service itself during "+u.Phase+")",
				map[string]any{
					"service_config": specs[i], "phase": u.Phase, "backend_received": u.Rec,
					"documented_shape":     documentedShape(u.Rec.Method, segments(strings.TrimPrefix(bp, specs[i].Base)), true),
					"has_client_ip_header": len(u.Rec.Header.Values(clientIPHeader)) > 0,
					"refresh_calls_so_far": refreshes,
				})
		}
	}
	if got, want := r.BucketGet("backend_requests_recorded_in_total"), r.BucketGet("backend_requests")+r.BucketGet("backend_requests_unsolicited")+r.BucketGet("backend_requests_in_retries"); got != want {
		r.Violation("backend:recorded-requests-not-accounted-for",
			"the number of requests the back-end recorded differs from those claimed by client requests plus the unsolicited ones",
			map[string]any{"recorded": got, "claimed_plus_unsolicited": want})
	}
	r.Bucket("distinct_peer_addresses_forwarded", int64(len(j.peersFwd)))
	nerr := 0
	for _, f := range fx {
		nerr += f.ec.count()
	}
	r.Bucket("proxy_error_collector_events", int64(nerr))
	r.Extra("cases", n)
	r.Extra("client_addresses", ips)
	r.Exhaustive(false)

	r.Require("backend_requests", int64(n/12))
	r.Require("model_must", int64(n/20))
	r.Require("model_mustnot", int64(n/6))
	r.Require("model_ambiguous", int64(n/60))
	r.Require("dot_segment_requests_sent", int64(n/30))
	r.Require("forwarded_with_forged_listed_header", int64(n/30))
	r.Require("forwarded_with_forged_client_ip_header", int64(n/60))
	r.Require("forwarded_with_connection_naming_header", int64(n/100))
	r.Require("form_absolute", int64(n/40))
	// double/triple percent-encoded dot segments and slashes: sent, and
	// actually forwarded (they have a documented shape after one decoding)
	r.Require("multi_encoded_requests_sent", int64(n/40))
	r.Require("multi_encoded_requests_forwarded", int64(n/100))
	r.Require("distinct_peer_addresses_forwarded", 2)
	// short API paths (0-3 segments, empty ones) with GET and POST
	r.Require("short_api_path_requests_sent", int64(n/40))
	r.Require("post_ddns_three_segments_sent", int64(n/300))
	// the service's other entry points were exercised while recording
	r.Require("service_refresh_calls_while_recording", int64(4*workers+n/(2*refreshEvery)))
	r.Require("service_lifecycles_observed_new_refresh_start_shutdown", int64(workers))
	// routing hints (CORS preflight headers, method-override headers and
	// parameters, Upgrade, Expect, Content-Type, X-Original-URL/-Method)
	r.Require("routing_hint_requests_sent", int64(n/10))
	r.Require("hint_names_documented_method_on_non_get_post_request", int64(n/60))
	r.Require("options_preflight_naming_documented_method_on_documented_path", int64(n/600))
	r.Require("hint_names_documented_method_on_get_post_request_of_wrong_shape", int64(n/1000))
	// configuration classes: the root path on services with a root redirect
	// URL, static paths on services with static content
	r.Require("root_path_requests_on_root_redirect_config", int64(n/400))
	r.Require("static_path_requests_on_static_content_config", int64(n/1000))
	// peer-address classes: IPv6, IPv4 on a dual-stack bind, zoned link-local
	// (inconclusive where the machine has no IPv6 loopback / link-local address)
	r.Require("ipv6_peer_requests_forwarded", int64(n/400))
	r.Require("ipv4_peer_on_dual_stack_bind_requests_forwarded", int64(n/400))
	r.Require("zoned_peer_requests_forwarded", int64(n/200))
	r.Require("local_404", int64(n/6))
	if to := r.BucketGet("watchdog_timeouts") + r.BucketGet("dial_errors"); to > int64(n/100) {
		r.Inconclusive(fmt.Sprintf("%d cases hit the client watchdog or could not connect", to))
	}
}
