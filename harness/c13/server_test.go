package c13

import (
	"bufio"
	"fmt"
	"io"
	"math/rand/v2"
	"net"
	"net/http"
	"os"
	"strconv"
	"strings"
	"sync"
	"time"
)

// Behaviour kinds of the scripted file server.
const (
	bOK        = "ok"            // 200, complete body
	bStatus    = "status"        // non-200 status with a complete body
	bEmpty     = "empty"         // 200, empty body
	bTruncCL   = "trunc-cl"      // Content-Length announced, connection closed after Cut bytes
	bTruncChnk = "trunc-chunked" // chunked, closed after Cut bytes without the last chunk
	bStall     = "stall"         // headers + Cut bytes, then silence until the client gives up
	bTimeout   = "timeout"       // request read, nothing ever sent
	bReset     = "reset"         // connection reset right after the request
	bResetMid  = "reset-mid"     // headers + Cut bytes, then reset
	bGate      = "gate"          // chunked; after GateChunk chunks notify and hold for ever (crash phase)
	bPause     = "pause"         // notify, wait until released, then 200 with the complete body (overlapping refreshes)
)

// behaviour is what the server does with one request.
type behaviour struct {
	Kind      string
	Body      []byte
	Status    int
	Chunked   bool
	Cut       int
	GateChunk int
	// Version is the list version the body belongs to (bookkeeping only).
	Version int
}

// servedRec is the server-side record of one request.
type servedRec struct {
	Kind     string
	Version  int
	Complete bool
}

type gateEvt struct {
	Target string
	Chunk  int
}

// fsrv is one scripted HTTP/1.1 file server (one per download target) on a
// fixed port that can be taken down (connection refused) and brought back.
type fsrv struct {
	name      string
	port      int
	portLock  net.Listener
	chunkSize int

	mu     sync.Mutex
	ln     net.Listener
	conns  map[net.Conn]struct{}
	script func(n int) behaviour
	reqs   int
	log    []servedRec
	gateCh chan gateEvt
	// releaseCh, when closed, lets paused responses (bPause) continue.
	releaseCh chan struct{}
	closed    bool
	wg        sync.WaitGroup
}

const holdMax = 20 * time.Second

// portMu/portsInUse keep the in-process servers from racing for one port.
var (
	portMu     sync.Mutex
	portsInUse = map[int]bool{}
)

// ephemeralLow returns the lower bound of the kernel's ephemeral port range.
func ephemeralLow() int {
	b, err := os.ReadFile("/proc/sys/net/ipv4/ip_local_port_range")
	if err == nil {
		f := strings.Fields(string(b))
		if len(f) == 2 {
			if lo, e := strconv.Atoi(f[0]); e == nil && lo > 12000 {
				return lo
			}
		}
	}
	return 32768
}

// listenStable listens on a port below the ephemeral range, so that after the
// listener is closed (fault "refused") no other process is handed the port by
// the kernel before it is re-opened.
//
// A port is additionally reserved across processes (other seeds of this check
// may run at the same time) by binding an abstract unix socket named after it;
// the reservation disappears with the process.
func listenStable(rng *rand.Rand) (ln net.Listener, port int, lock net.Listener, err error) {
	lo, hi := 10000, ephemeralLow()-1
	var lastErr error
	for i := 0; i < 400; i++ {
		p := lo + rng.IntN(hi-lo)
		portMu.Lock()
		used := portsInUse[p]
		if !used {
			portsInUse[p] = true
		}
		portMu.Unlock()
		if used {
			continue
		}
		release := func() {
			portMu.Lock()
			delete(portsInUse, p)
			portMu.Unlock()
		}
		lock, err = net.Listen("unix", "@verif-c13-port-"+strconv.Itoa(p))
		if err != nil {
			lastErr = err
			release()
			continue
		}
		ln, err = net.Listen("tcp4", "127.0.0.1:"+strconv.Itoa(p))
		if err == nil {
			return ln, p, lock, nil
		}
		lastErr = err
		_ = lock.Close()
		release()
	}
	return nil, 0, nil, fmt.Errorf("no stable port: %v", lastErr)
}

func newFsrv(name string, rng *rand.Rand, chunk int) (*fsrv, error) {
	ln, port, lock, err := listenStable(rng)
	if err != nil {
		return nil, err
	}
	s := &fsrv{name: name, port: port, portLock: lock, chunkSize: chunk, ln: ln, conns: map[net.Conn]struct{}{}}
	s.script = func(int) behaviour { return behaviour{Kind: bStatus, Status: 503, Body: []byte("unscripted")} }
	s.wg.Add(1)
	go s.acceptLoop(ln)
	return s, nil
}

func (s *fsrv) url() string { return fmt.Sprintf("http://127.0.0.1:%d/%s", s.port, s.name) }

func (s *fsrv) setScript(f func(n int) behaviour) {
	s.mu.Lock()
	s.script = f
	s.reqs = 0
	s.mu.Unlock()
}

// setAll makes every request get the same behaviour.
func (s *fsrv) setAll(b behaviour) { s.setScript(func(int) behaviour { return b }) }

func (s *fsrv) takeLog() []servedRec {
	s.mu.Lock()
	defer s.mu.Unlock()
	l := s.log
	s.log = nil
	return l
}

// down closes the listener and every open connection: new connections are
// refused.
func (s *fsrv) down() {
	s.mu.Lock()
	ln := s.ln
	s.ln = nil
	for c := range s.conns {
		_ = c.Close()
	}
	s.mu.Unlock()
	if ln != nil {
		_ = ln.Close()
	}
}

// up re-opens the listener on the same port.
func (s *fsrv) up() error {
	s.mu.Lock()
	if s.ln != nil || s.closed {
		s.mu.Unlock()
		return nil
	}
	s.mu.Unlock()
	var ln net.Listener
	var err error
	for i := 0; i < 300; i++ {
		ln, err = net.Listen("tcp4", "127.0.0.1:"+strconv.Itoa(s.port))
		if err == nil {
			break
		}
		time.Sleep(10 * time.Millisecond)
	}
	if err != nil {
		return err
	}
	s.mu.Lock()
	s.ln = ln
	s.mu.Unlock()
	s.wg.Add(1)
	go s.acceptLoop(ln)
	return nil
}

func (s *fsrv) isUp() bool {
	s.mu.Lock()
	defer s.mu.Unlock()
	return s.ln != nil
}

func (s *fsrv) close() {
	s.mu.Lock()
	s.closed = true
	s.mu.Unlock()
	s.down()
	s.wg.Wait()
	if s.portLock != nil {
		_ = s.portLock.Close()
	}
	portMu.Lock()
	delete(portsInUse, s.port)
	portMu.Unlock()
}

func (s *fsrv) acceptLoop(ln net.Listener) {
	defer s.wg.Done()
	for {
		c, err := ln.Accept()
		if err != nil {
			return
		}
		s.mu.Lock()
		if s.ln != ln {
			s.mu.Unlock()
			_ = c.Close()
			continue
		}
		s.conns[c] = struct{}{}
		s.mu.Unlock()
		s.wg.Add(1)
		go func() {
			defer s.wg.Done()
			s.handle(c)
			s.mu.Lock()
			delete(s.conns, c)
			s.mu.Unlock()
			_ = c.Close()
		}()
	}
}

// hold waits until the peer goes away (or holdMax).
func hold(c net.Conn) {
	_ = c.SetReadDeadline(time.Now().Add(holdMax))
	_, _ = io.Copy(io.Discard, c)
}

func rst(c net.Conn) {
	if tc, ok := c.(*net.TCPConn); ok {
		_ = tc.SetLinger(0)
	}
	_ = c.Close()
}

func (s *fsrv) handle(c net.Conn) {
	_ = c.SetDeadline(time.Now().Add(holdMax + 10*time.Second))
	br := bufio.NewReader(c)
	req, err := http.ReadRequest(br)
	if err != nil {
		return
	}
	_ = req.Body.Close()
	s.mu.Lock()
	n := s.reqs
	s.reqs++
	b := s.script(n)
	gateCh := s.gateCh
	releaseCh := s.releaseCh
	s.mu.Unlock()

	rec := servedRec{Kind: b.Kind, Version: b.Version}
	defer func() {
		s.mu.Lock()
		s.log = append(s.log, rec)
		s.mu.Unlock()
	}()

	status := b.Status
	if status == 0 {
		status = 200
	}
	head := func(chunked bool, cl int) error {
		h := fmt.Sprintf("HTTP/1.1 %d %s\r\nServer: verif-c13\r\nContent-Type: text/plain\r\nConnection: close\r\n", status, http.StatusText(status))
		if chunked {
			h += "Transfer-Encoding: chunked\r\n"
		} else {
			h += fmt.Sprintf("Content-Length: %d\r\n", cl)
		}
		h += "\r\n"
		_, e := io.WriteString(c, h)
		return e
	}
	// sendBody writes body[:upTo] in pieces; with chunked framing each piece is
	// one chunk.  It returns the number of pieces written.
	sendBody := func(body []byte, upTo int, chunked bool, stopAfter int) (pieces int, err error) {
		cs := s.chunkSize
		if upTo > len(body) {
			upTo = len(body)
		}
		for off := 0; off < upTo; off += cs {
			if stopAfter >= 0 && pieces >= stopAfter {
				return pieces, nil
			}
			end := off + cs
			if end > upTo {
				end = upTo
			}
			p := body[off:end]
			if chunked {
				if _, err = fmt.Fprintf(c, "%x\r\n", len(p)); err != nil {
					return pieces, err
				}
			}
			if _, err = c.Write(p); err != nil {
				return pieces, err
			}
			if chunked {
				if _, err = io.WriteString(c, "\r\n"); err != nil {
					return pieces, err
				}
			}
			pieces++
		}
		return pieces, nil
	}

	if b.Kind == bPause {
		if gateCh != nil {
			gateCh <- gateEvt{Target: s.name}
		}
		if releaseCh != nil {
			select {
			case <-releaseCh:
			case <-time.After(holdMax):
			}
		}
	}
	switch b.Kind {
	case bOK, bStatus, bEmpty, bPause:
		body := b.Body
		if b.Kind == bEmpty {
			body = nil
		}
		if err = head(b.Chunked, len(body)); err != nil {
			return
		}
		if _, err = sendBody(body, len(body), b.Chunked, -1); err != nil {
			return
		}
		if b.Chunked {
			if _, err = io.WriteString(c, "0\r\n\r\n"); err != nil {
				return
			}
		}
		rec.Complete = true
	case bTruncCL:
		if head(false, len(b.Body)) != nil {
			return
		}
		_, _ = sendBody(b.Body, b.Cut, false, -1)
	case bTruncChnk:
		if head(true, 0) != nil {
			return
		}
		_, _ = sendBody(b.Body, b.Cut, true, -1)
	case bStall:
		if head(b.Chunked, len(b.Body)) != nil {
			return
		}
		_, _ = sendBody(b.Body, b.Cut, b.Chunked, -1)
		hold(c)
	case bTimeout:
		hold(c)
	case bReset:
		rst(c)
	case bResetMid:
		if head(false, len(b.Body)) != nil {
			return
		}
		_, _ = sendBody(b.Body, b.Cut, false, -1)
		// give the bytes a chance to reach the client before the RST
		time.Sleep(5 * time.Millisecond)
		rst(c)
	case bGate:
		if head(true, 0) != nil {
			return
		}
		if _, err = sendBody(b.Body, len(b.Body), true, b.GateChunk); err != nil {
			return
		}
		if gateCh != nil {
			gateCh <- gateEvt{Target: s.name, Chunk: b.GateChunk}
		}
		hold(c)
	}
}
