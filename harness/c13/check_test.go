// Package c13 monitors property C13: a failed or interrupted filter update
// never weakens or corrupts filtering.
//
// Two experiments drive the real filterstorage.Default and hashprefix.Filter
// against a scripted file server that lives in this package:
//
//   - in-process fault rounds (this file): sequences of good and faulty refresh
//     rounds; after every round the verdicts of the storage and the bytes of the
//     cache directory are compared with the statement;
//   - crash points (crash_test.go): child processes refresh against the
//     parent's server and are SIGKILLed while a transfer is stalled, at the
//     N-th syscall of a kind (strace injection) or at seeded random instants;
//     the cache directory is checked and a new child must start from it with
//     the server down.
package c13

import (
	"bytes"
	"context"
	"fmt"
	"math/rand/v2"
	"os"
	"path/filepath"
	"sort"
	"strings"
	"sync"
	"testing"
	"time"

	"github.com/AdguardTeam/AdGuardDNS/verif/vkit"
)

// ---- world: the servers and the versions they ever offered -------------------

type world struct {
	srv   map[string]*fsrv
	urls  map[string]string
	legit legitSet
	// faultBodies remembers, per target, the bodies offered by faulty
	// responses (to name what an illegitimate cache file holds).
	faultBodies map[string]map[string][]byte
	// unusable marks, per target, the versions that were transferred
	// completely with status 200 (so they are complete versions as far as the
	// on-disk clause goes) but whose content the code under test rejects
	// (undecodable JSON, service index with an invalid id, hash list with an
	// over-long line); the value is the fault kind class.
	unusable map[string]map[int]string
}

const chunkSize = 512

func newWorld(rng *rand.Rand) (*world, error) {
	w := &world{srv: map[string]*fsrv{}, urls: map[string]string{}, legit: legitSet{}, faultBodies: map[string]map[string][]byte{}, unusable: map[string]map[int]string{}}
	for _, t := range allTargets {
		s, err := newFsrv(t, rng, chunkSize)
		if err != nil {
			w.close()
			return nil, err
		}
		w.srv[t] = s
		w.urls[t] = s.url()
	}
	return w, nil
}

func (w *world) close() {
	for _, s := range w.srv {
		s.close()
	}
}

func (w *world) allDown() {
	for _, s := range w.srv {
		s.down()
	}
}

func (w *world) allUp() error {
	for _, t := range allTargets {
		if err := w.srv[t].up(); err != nil {
			return fmt.Errorf("re-listen %s: %w", t, err)
		}
	}
	return nil
}

// content is the complete, valid version v of target t.
func (w *world) content(t string, v int) []byte {
	if t == tIdx {
		return indexText(w.urls, v, ixPlain)
	}
	return listText(t, v)
}

// ---- faults ---------------------------------------------------------------------

const (
	fRefused      = "refused"
	fReset        = "reset"
	fResetMid     = "reset-mid-body"
	fTimeout      = "timeout"
	fStallCL      = "stall-content-length"
	fStallChunked = "stall-chunked"
	f404          = "status-404"
	f500          = "status-500"
	f206          = "status-206-half-body"
	f204          = "status-204"
	fEmpty        = "empty-body"
	fEmptyChunked = "empty-body-chunked"
	fOverCL       = "oversized-content-length"
	fOverChunked  = "oversized-chunked"
	fTruncEarly   = "truncated-content-length-early"
	fTruncLate    = "truncated-content-length-last-byte"
	fTruncChunked = "truncated-chunked"
	fBadJSONHTML  = "invalid-json-html-page"
	fBadJSONCut   = "invalid-json-cut-document"
	fSvcBadEntry  = "services-invalid-entry"
	fHashLongLine = "hash-list-overlong-line"
)

var genericFaults = []string{
	fRefused, fReset, fResetMid, fTimeout, fStallCL, fStallChunked, f404, f500, f206, f204, fEmpty, fEmptyChunked,
	fOverCL, fOverChunked, fTruncEarly, fTruncLate, fTruncChunked,
}

var faultTargets = []string{tIdx, tRLa, tRLb, tRLc, tSvc, tSSGen, tSSYT, tHPAdult, tHPDanger, tHPNewReg}

// kindClass merges fault kinds that differ only in the garbage they send.
func kindClass(k string) string {
	if k == fBadJSONHTML || k == fBadJSONCut {
		return "undecodable-document"
	}
	return k
}

// contentInvalid reports whether the fault is a complete, status-200 transfer
// of a document that only a content-level validator rejects.
func contentInvalid(k string) bool {
	return k == fBadJSONHTML || k == fBadJSONCut || k == fSvcBadEntry || k == fHashLongLine
}

func isIdxVariant(k string) bool { return strings.HasPrefix(k, "idx-") }
func isIdxKnown(k string) bool   { return strings.HasPrefix(k, "idx-known-") }

// slowFault reports whether the fault makes the client wait for its timeout.
func slowFault(k string) bool { return k == fTimeout || k == fStallCL || k == fStallChunked }

type faultSpec struct {
	Kind   string `json:"kind"`
	Target string `json:"target"`
}

func pad(t string, b []byte, upTo int) []byte {
	out := append([]byte(nil), b...)
	switch t {
	case tIdx, tSvc:
		// trailing white space keeps the document valid JSON wherever it is cut
		for len(out) < upTo {
			out = append(out, "                                                               \n"...)
		}
	case tHPAdult, tHPDanger, tHPNewReg:
		for len(out) < upTo {
			out = append(out, "# padding padding padding padding padding padding padding padding\n"...)
		}
	default:
		for len(out) < upTo {
			out = append(out, "! padding padding padding padding padding padding padding padding\n"...)
		}
	}
	return out
}

// behaviourFor builds the server behaviour of target t in a round that offers
// version v, given the fault of the round (nil or on another target: complete
// version).  legit tells whether the body counts as a complete version: it
// does iff it is transferred completely with status 200 - also when its
// content is then rejected by the code under test (see world.unusable).
func (w *world) behaviourFor(t string, v int, f *faultSpec, chunked bool) (b behaviour, legit bool) {
	body := w.content(t, v)
	if f == nil || f.Target != t {
		return behaviour{Kind: bOK, Body: body, Chunked: chunked, Version: v}, true
	}
	half := len(body) / 2
	switch f.Kind {
	case fRefused:
		// the listener is taken down by the caller
		return behaviour{Kind: bReset, Version: v}, false
	case fReset:
		return behaviour{Kind: bReset, Version: v}, false
	case fResetMid:
		return behaviour{Kind: bResetMid, Body: body, Cut: half, Version: v}, false
	case fTimeout:
		return behaviour{Kind: bTimeout, Version: v}, false
	case fStallCL:
		return behaviour{Kind: bStall, Body: body, Cut: half, Version: v}, false
	case fStallChunked:
		return behaviour{Kind: bStall, Body: body, Cut: half, Chunked: true, Version: v}, false
	case f404:
		return behaviour{Kind: bStatus, Status: 404, Body: body, Version: v}, false
	case f500:
		return behaviour{Kind: bStatus, Status: 500, Body: body, Chunked: true, Version: v}, false
	case f206:
		return behaviour{Kind: bStatus, Status: 206, Body: body[:half], Version: v}, false
	case f204:
		return behaviour{Kind: bStatus, Status: 204, Body: nil, Version: v}, false
	case fEmpty:
		return behaviour{Kind: bEmpty, Version: v}, false
	case fEmptyChunked:
		return behaviour{Kind: bEmpty, Chunked: true, Version: v}, false
	case fOverCL:
		return behaviour{Kind: bOK, Body: pad(t, body, maxSize+4096), Version: v}, false
	case fOverChunked:
		return behaviour{Kind: bOK, Body: pad(t, body, maxSize+1), Chunked: true, Version: v}, false
	case fTruncEarly:
		return behaviour{Kind: bTruncCL, Body: body, Cut: half, Version: v}, false
	case fTruncLate:
		return behaviour{Kind: bTruncCL, Body: body, Cut: len(body) - 1, Version: v}, false
	case fTruncChunked:
		return behaviour{Kind: bTruncChnk, Body: body, Cut: min(half+chunkSize, len(body)-1), Version: v}, false
	case fBadJSONHTML:
		return behaviour{Kind: bOK, Body: []byte("<html><body><h1>502 Bad Gateway</h1>the origin is down</body></html>\n"), Version: v}, true
	case fBadJSONCut:
		return behaviour{Kind: bOK, Body: body[:half], Chunked: chunked, Version: v}, true
	case fSvcBadEntry:
		return behaviour{Kind: bOK, Body: svcText(v, true), Chunked: chunked, Version: v}, true
	case fHashLongLine:
		// a complete transfer of a hash list one of whose lines is longer than
		// the scanner of the hash storage accepts
		cut := bytes.LastIndexByte(body[:half], '\n') + 1
		long := append(bytes.Repeat([]byte("a"), 70000), ".example\n"...)
		nb := append(append(append([]byte(nil), body[:cut]...), long...), body[cut:]...)
		return behaviour{Kind: bOK, Body: nb, Chunked: chunked, Version: v}, true
	}
	if isIdxVariant(f.Kind) {
		// a complete index version some of whose entries are invalid
		return behaviour{Kind: bOK, Body: indexText(w.urls, v, f.Kind), Chunked: chunked, Version: v}, true
	}
	panic("unknown fault " + f.Kind)
}

// setRound scripts every server for one round offering version v.
func (w *world) setRound(v int, f *faultSpec, rng *rand.Rand) error {
	for _, t := range allTargets {
		b, legit := w.behaviourFor(t, v, f, rng.IntN(2) == 0)
		if legit {
			w.legit.add(t, v, b.Body)
			if f != nil && f.Target == t && contentInvalid(f.Kind) {
				if w.unusable[t] == nil {
					w.unusable[t] = map[int]string{}
				}
				w.unusable[t][v] = kindClass(f.Kind)
			} else if w.unusable[t] != nil {
				delete(w.unusable[t], v)
			}
		} else if len(b.Body) > 0 {
			if w.faultBodies[t] == nil {
				w.faultBodies[t] = map[string][]byte{}
			}
			w.faultBodies[t][fmt.Sprintf("%s@v%d", f.Kind, v)] = b.Body
		}
		w.srv[t].setAll(b)
		if f != nil && f.Target == t && f.Kind == fRefused {
			w.srv[t].down()
		} else if err := w.srv[t].up(); err != nil {
			return fmt.Errorf("re-listen %s: %w", t, err)
		}
	}
	return nil
}

// ---- one scenario -----------------------------------------------------------------

type roundSpec struct {
	Fault *faultSpec `json:"fault,omitempty"`
}

type scenario struct {
	Idx    int         `json:"idx"`
	Rounds []roundSpec `json:"rounds"`
}

func (sc scenario) pattern() string {
	var sb strings.Builder
	for _, r := range sc.Rounds {
		if r.Fault == nil {
			sb.WriteByte('G')
		} else {
			sb.WriteByte('F')
		}
	}
	return sb.String()
}

type roundRec struct {
	Round     int               `json:"round"`
	Op        string            `json:"op"`
	Version   int               `json:"offered_version"`
	Fault     *faultSpec        `json:"fault,omitempty"`
	Res       *refreshRes       `json:"result,omitempty"`
	Pre       map[string]int    `json:"served_before"`
	Post      map[string]int    `json:"served_after,omitempty"`
	PreMarks  []int             `json:"index_marks_before"`
	PostMarks []int             `json:"index_marks_after,omitempty"`
	Disk      map[string]string `json:"cache_dir_after"`
	Spurious  []string          `json:"unexplained_errors,omitempty"`
}

// explained reports whether error text e is accounted for by fault f.
func explained(e string, f *faultSpec) bool {
	if f == nil {
		return false
	}
	var needles []string
	switch f.Target {
	case tIdx:
		needles = []string{"rule_list_index", "index response", "rule-list id", "adding rule list", "decoding: "}
		if isIdxVariant(f.Kind) {
			// A partially invalid index is transferred completely and
			// decodes: only the complaints about its entries are explained
			// by it.  A failure to load the index itself in such a round
			// (spurious timeout, no space left on the device, ...) is not,
			// and makes the round ambiguous.
			needles = []string{"index response", "rule-list id", "adding rule list"}
		}
		if isIdxKnown(f.Kind) {
			needles = append(needles, tRLb)
		}
	case tSvc:
		needles = []string{"blocked_service", "blocked service"}
	case tSSGen, tSSYT, tHPAdult, tHPDanger, tHPNewReg:
		needles = []string{cacheFileOf(f.Target)}
	default:
		needles = []string{f.Target}
	}
	for _, n := range needles {
		if strings.Contains(e, n) {
			return true
		}
	}
	return false
}

func versionsOf(o observation) (map[string]int, []string) {
	out := map[string]int{}
	var unclean []string
	for _, t := range servingLists {
		v, clean := o.Lists[t].version()
		out[t] = v
		if !clean {
			unclean = append(unclean, t)
		}
	}
	return out, unclean
}

func intsEq(a, b []int) bool {
	if len(a) != len(b) {
		return false
	}
	for i := range a {
		if a[i] != b[i] {
			return false
		}
	}
	return true
}

// runner executes scenarios and holds the oracle.
type runner struct {
	r       *vkit.Run
	t       *testing.T
	scratch string
	timeout int // ms

	mu      sync.Mutex
	triples map[string]struct{}
}

// checkDisk compares the cache directory with the complete versions ever
// offered.  It returns per target the version on disk (0 = no file, -1 = not
// a complete version) and a printable summary.
//
// A file that holds a completely transferred document that the code under
// test rejects gets version -2 and is listed in unusable.
func (ru *runner) checkDisk(w *world, dir string, f *faultSpec, wit func() map[string]any) (vers map[string]int, summ map[string]string, origin map[string]string, unusable map[string]string) {
	r := ru.r
	vers = map[string]int{}
	summ = map[string]string{}
	origin = map[string]string{}
	unusable = map[string]string{}
	files, err := readDisk(dir)
	if err != nil {
		r.Inconclusive("cannot read cache dir: " + err.Error())
		return vers, summ, origin, unusable
	}
	names := make([]string, 0, len(files))
	for n := range files {
		names = append(names, n)
	}
	sort.Strings(names)
	for _, n := range names {
		b := files[n]
		t, ok := targetOfFile(n)
		if !ok {
			r.Bucket("cache_files_unknown_name", 1)
			summ[n] = "unknown-file"
			continue
		}
		r.Bucket("cache_files_compared", 1)
		v, ok := w.legit.versionOf(t, b)
		if ok {
			if uk, isUn := w.unusable[t][v]; isUn {
				summ[n] = fmt.Sprintf("v%d: completely transferred document that the code under test rejects (%s)", v, uk)
				vers[t] = -2
				unusable[t] = uk
				r.Bucket("observed_cache_file_holds_complete_but_unusable_document", 1)
				continue
			}
			summ[n] = fmt.Sprintf("v%d", v)
			if t != tMark {
				vers[t] = v
			}
			continue
		}
		if t != tMark {
			vers[t] = -1
		}
		what := "unrecognised"
		org := ""
		fks := make([]string, 0, len(w.faultBodies[t]))
		for k := range w.faultBodies[t] {
			fks = append(fks, k)
		}
		sort.Strings(fks)
		for _, k := range fks {
			fb := w.faultBodies[t][k]
			switch {
			case bytes.Equal(fb, b):
				what = "exactly the body of faulty response " + k
				org = k
			case len(b) < len(fb) && bytes.HasPrefix(fb, b) && what == "unrecognised":
				what = fmt.Sprintf("a prefix (%d of %d bytes) of the body of faulty response %s", len(b), len(fb), k)
				org = k
			}
		}
		if what == "unrecognised" {
			for v, lb := range w.legit[t] {
				if len(b) < len(lb) && bytes.HasPrefix(lb, b) {
					what = fmt.Sprintf("a strict prefix (%d of %d bytes) of complete version %d", len(b), len(lb), v)
				}
			}
		}
		// the complete version of ANOTHER list?
		other := ""
		if what == "unrecognised" {
			for _, x := range allTargets {
				if x == t {
					continue
				}
				if xv, isX := w.legit.versionOf(x, b); isX {
					other = x
					what = fmt.Sprintf("exactly complete version %d of ANOTHER list, %s", xv, x)
					break
				}
			}
		}
		if other != "" {
			summ[n] = "NOT-A-COMPLETE-VERSION: " + what
			origin[t] = "content-of-" + other
			if wit == nil {
				continue
			}
			wm := wit()
			wm["file"], wm["file_is"], wm["file_bytes"] = n, what, describeBytes(b)
			r.Violation(fmt.Sprintf("cache-file-holds-another-lists-content:%s:from-%s", targetClass(t), other),
				"a cache file holds the content of another list", wm)
			continue
		}
		summ[n] = "NOT-A-COMPLETE-VERSION: " + what
		// the key names the faulty response the bytes come from (stable over
		// later rounds), or failing that the fault of the current round
		kind := "unrecognised-bytes"
		if org != "" {
			kind = kindClass(org[:strings.IndexByte(org, '@')])
		} else if f != nil {
			kind = "unrecognised-bytes-during-" + kindClass(f.Kind)
		}
		origin[t] = kind
		if wit == nil {
			continue
		}
		wm := wit()
		wm["file"] = n
		wm["file_is"] = what
		wm["file_bytes"] = describeBytes(b)
		r.Violation(fmt.Sprintf("cache-file-not-a-complete-version:%s:%s", targetClass(t), kind),
			"a cache file holds bytes that are not any complete version ever served for it", wm)
	}
	return vers, summ, origin, unusable
}

func (ru *runner) runScenario(sc scenario) {
	r := ru.r
	rng := r.Rand("scenario-run", sc.Idx)
	w, err := newWorld(rng)
	if err != nil {
		r.Bucket("scenarios_skipped_no_port", 1)
		return
	}
	defer w.close()
	dir := filepath.Join(ru.scratch, fmt.Sprintf("s%05d", sc.Idx), "cache")
	if err = os.MkdirAll(dir, 0o755); err != nil {
		r.Inconclusive("mkdir: " + err.Error())
		return
	}
	defer os.RemoveAll(filepath.Dir(dir))
	conf := instConf{Dir: dir, URLs: w.urls, TimeoutMs: ru.timeout, VMax: len(sc.Rounds) + 1}
	ctx := context.Background()

	var recs []roundRec
	var in *instance // nil = no live process
	witness := func() map[string]any {
		return map[string]any{"scenario": sc, "pattern": sc.pattern(), "rounds_so_far": recs}
	}
	nontrivial := false
	hadGood := false

	for i, rs := range sc.Rounds {
		v := i + 1
		f := rs.Fault
		if err = w.setRound(v, f, rng); err != nil {
			r.Bucket("scenarios_aborted_relisten", 1)
			return
		}
		rec := roundRec{Round: i, Version: v, Fault: f}
		kind, tclass := "none", "none"
		if f != nil {
			kind, tclass = f.Kind, targetClass(f.Target)
		}
		fail := func(key, what string, extra map[string]any) {
			wm := witness()
			wm["this_round"] = rec
			for k, x := range extra {
				wm[k] = x
			}
			r.Violation(key, what, wm)
		}

		// what is served / stored before the round
		var preMarks []int
		var preOrigin, preUnusable map[string]string
		pre := map[string]int{}
		live := in != nil
		if live {
			o := in.observe(ctx)
			pre, _ = versionsOf(o)
			preMarks = o.Marks
		} else {
			var dv map[string]int
			dv, _, preOrigin, preUnusable = ru.checkDisk(w, dir, nil, nil)
			for _, t := range servingLists {
				pre[t] = dv[t]
			}
			if iv := dv[tIdx]; iv > 0 {
				preMarks = []int{iv}
				if bytes.Contains(w.legit[tIdx][iv], []byte("idx-known-")) {
					// the index in the cache has no usable entry for rl_b:
					// what a start makes of it is not compared
					pre[tRLb] = -1
				}
				if bytes.Contains(w.legit[tIdx][iv], []byte(ixAbsURLShort)) {
					// ... and does not list rl_c
					pre[tRLc] = -1
				}
			}
		}
		rec.Pre, rec.PreMarks = pre, preMarks

		var res refreshRes
		if live {
			rec.Op = "refresh"
			res = in.refresh(ctx)
		} else {
			rec.Op = "start"
			in, err = newInstance(ru.t, conf)
			if err != nil {
				r.Inconclusive("constructing the storage failed: " + err.Error())
				return
			}
			res = in.start(ctx)
			r.Bucket("starts", 1)
			if !res.ok() {
				r.Bucket("starts_failed", 1)
			}
		}
		rec.Res = &res
		r.Bucket("rounds", 1)
		exercised := false
		if f != nil {
			r.Bucket("faulty_rounds", 1)
			r.Bucket("fault/"+kind, 1)
			r.Bucket("fault_target/"+f.Target, 1)
			r.Bucket(fmt.Sprintf("fault_position/%d", i), 1)
			if hits := len(w.srv[f.Target].takeLog()); hits > 0 || f.Kind == fRefused {
				r.Bucket("faults_exercised", 1)
				exercised = true
				ru.mu.Lock()
				ru.triples[fmt.Sprintf("%s|%s|%d", kind, f.Target, i)] = struct{}{}
				ru.mu.Unlock()
				if hadGood {
					nontrivial = true
				}
			} else {
				// e.g. a start from a populated cache does not download
				r.Bucket("faults_not_requested", 1)
			}
		}
		for _, t := range allTargets {
			w.srv[t].takeLog()
		}

		// A start-up that fails although nothing is wrong with the server in
		// this round, because a cache file left by an earlier faulty round is
		// unusable (a start-up reads the cache regardless of its age).
		poisoned := false
		if !live && !res.ok() && f == nil {
			ts := make([]string, 0, len(preOrigin))
			for t := range preOrigin {
				ts = append(ts, t)
			}
			sort.Strings(ts)
			for _, t := range ts {
				poisoned = true
				fail(fmt.Sprintf("restart-fails:%s-cached-from-%s", targetClass(t), preOrigin[t]),
					"a start-up fails, even with a healthy server, because the cache file left by an earlier failed update is unusable",
					map[string]any{"unusable_cache_file_of": t})
			}
		}

		if !live && !res.ok() && len(preUnusable) > 0 {
			// The cache legitimately holds a completely transferred document
			// whose content is rejected: not an on-disk violation; what a
			// start-up makes of it is only counted.
			poisoned = true
			r.Bucket("observed_restart_fails_on_complete_but_unusable_cached_document", 1)
		}

		// unexplained errors make the strict expectations undecidable
		for _, e := range res.Collected {
			if !explained(e, f) {
				rec.Spurious = append(rec.Spurious, e)
			}
		}
		for k, e := range res.Errs {
			if !explained(e, f) {
				rec.Spurious = append(rec.Spurious, k+": "+e)
			}
		}
		ambiguous := len(rec.Spurious) > 0 && !poisoned
		if ambiguous {
			r.Bucket("ambiguous_rounds", 1)
			if os.Getenv("VERIF_C13_DEBUG") != "" {
				fmt.Printf("AMBIGUOUS scenario %d round %d fault %s: %q\n", sc.Idx, i, vkit.JSON(f), rec.Spurious)
			}
		}

		// the cache directory
		_, rec.Disk, _, _ = ru.checkDisk(w, dir, f, func() map[string]any {
			wm := witness()
			wm["this_round"] = rec
			return wm
		})

		usable := live || res.ok()
		if !usable {
			// a failed start-up ends the process; nothing is served
			in = nil
			recs = append(recs, rec)
			continue
		}

		o := in.observe(ctx)
		post, unclean := versionsOf(o)
		rec.Post, rec.PostMarks = post, o.Marks
		if len(o.Errs) > 0 {
			fail("filtering-error", "filtering failed or filtered a host no list contains", map[string]any{"errors": o.Errs})
		}
		for _, t := range ruleListTargets {
			if len(o.Foreign[t]) > 0 {
				fail(fmt.Sprintf("list-serves-another-lists-content:rulelist:%s", kind),
					"a rule list, enabled alone, filters hosts that only another list contains",
					map[string]any{"list": t, "serves_content_of": o.Foreign[t]})
			}
		}
		for _, t := range unclean {
			fail(fmt.Sprintf("serves-incomplete-version:%s:%s", targetClass(t), kind),
				"a list serves something that is not one complete version (parts of a version, or several versions)",
				map[string]any{"list": t, "hits_per_version": o.Lists[t].Hits, "probes_per_version": len(probeIdx)})
		}
		known := f != nil && isIdxKnown(f.Kind)
		for _, t := range servingLists {
			p, q := pre[t], post[t]
			if q < 0 || p < 0 {
				continue
			}
			affected := f != nil && (f.Target == t && !isIdxVariant(f.Kind) || known && t == tRLb)
			switch {
			case affected && q != p:
				key := "faulted-list-changed"
				switch {
				case known:
					key = "index-invalid-entry:listed-list-dropped"
				case q == 0:
					key = "faulted-list-dropped"
				case q == v:
					key = "faulted-list-took-faulty-content"
				}
				if !known {
					key = fmt.Sprintf("%s:%s:%s", key, tclass, kind)
				}
				what := "the list whose download failed does not serve its previous complete version any more"
				if known {
					what = "a list whose index entry has a valid id but an unusable URL is no longer served instead of keeping its previous complete version"
				}
				fail(key, what, map[string]any{"list": t, "served_before": p, "served_after": q})
			case !affected && f != nil && idxRemoves(f.Kind) == t && q == 0:
				// the index legitimately does not list it any more
				r.Bucket("lists_removed_by_index", 1)
			case !affected && q != p && q != v:
				key := "other-list-wrong-version"
				if q == 0 {
					key = "other-list-dropped"
				}
				fail(fmt.Sprintf("%s:%s:fault-%s-on-%s", key, targetClass(t), kind, tclass),
					"a list that was not the one failing serves neither its previous nor its new complete version",
					map[string]any{"list": t, "served_before": p, "served_after": q, "new_version": v})
			case !affected && q == v && q != p:
				r.Bucket("lists_advanced", 1)
			}
		}
		// which index version is applied
		idxFaulted := f != nil && f.Target == tIdx && !isIdxVariant(f.Kind)
		switch {
		case idxFaulted:
			if !intsEq(o.Marks, preMarks) {
				fail(fmt.Sprintf("faulted-index-changed:%s", kind), "the index download failed but the set of applied index entries changed",
					map[string]any{"marks_before": preMarks, "marks_after": o.Marks})
			}
		case ambiguous:
		default:
			if !intsEq(o.Marks, preMarks) && !intsEq(o.Marks, []int{v}) {
				fail(fmt.Sprintf("index-neither-previous-nor-new:fault-%s-on-%s", kind, tclass),
					"the applied index is neither the previous nor the new complete version",
					map[string]any{"marks_before": preMarks, "marks_after": o.Marks, "new_version": v})
			}
		}
		// valid entries of a partially invalid index are applied
		if f != nil && isIdxVariant(f.Kind) && !ambiguous && exercised {
			r.Bucket("partial_index_rounds", 1)
			var missing []string
			if !intsEq(o.Marks, []int{v}) {
				missing = append(missing, fmt.Sprintf("%s%d", markPrefix, v))
			}
			for _, t := range ruleListTargets {
				if known && t == tRLb {
					continue
				}
				if idxRemoves(f.Kind) == t {
					if post[t] != 0 {
						missing = append(missing, "removal of "+t)
					}
					continue
				}
				if post[t] != v {
					missing = append(missing, t)
				}
			}
			if len(missing) > 0 {
				fail("index-partial:valid-entries-not-applied:"+kind, "valid entries of a partially invalid index were not applied",
					map[string]any{"not_applied": missing})
			} else {
				r.Bucket("partial_index_valid_entries_applied", 1)
			}
			if isIdxAbsent(f.Kind) && live {
				// the class that needs a history: the same storage loaded a
				// differently ordered index before
				r.Bucket("partial_index_absent_member_rounds_on_live_storage", 1)
				r.Bucket("partial_index_absent_member/"+f.Kind, 1)
			}
			if isIdxDup(f.Kind) && live && pre[tRLb] > 0 {
				// the class that needs a history: rl_b had a previous version
				// when an index listed it twice
				r.Bucket("partial_index_duplicate_key_rounds_with_previous_version", 1)
				r.Bucket("partial_index_duplicate_key/"+f.Kind, 1)
			}
		}
		if f == nil {
			hadGood = true
		}
		recs = append(recs, rec)
	}

	// Final restart with every server down: whatever is in the cache directory
	// must be enough to start and must be what is served.
	ru.finalRestart(w, sc, conf, recs)

	cls := "G"
	for _, rs := range sc.Rounds {
		if rs.Fault != nil {
			cls = fmt.Sprintf("%s|%s|%s", rs.Fault.Kind, rs.Fault.Target, sc.pattern())
			break
		}
	}
	r.Eval(cls, nontrivial)
	if sc.Idx%41 == 3 {
		r.Sample(map[string]any{"scenario": sc, "pattern": sc.pattern(), "rounds": recs})
	}
}

func (ru *runner) finalRestart(w *world, sc scenario, conf instConf, recs []roundRec) {
	r := ru.r
	ctx := context.Background()
	var lastFault *faultSpec
	for _, rs := range sc.Rounds {
		if rs.Fault != nil {
			lastFault = rs.Fault
		}
	}
	kind, tclass := "none", "none"
	if lastFault != nil {
		kind, tclass = kindClass(lastFault.Kind), targetClass(lastFault.Target)
	}
	w.allDown()
	witness := func() map[string]any {
		return map[string]any{"scenario": sc, "pattern": sc.pattern(), "rounds": recs, "step": "restart with every server down"}
	}
	dv, summ, origin, unusable := ru.checkDisk(w, conf.Dir, lastFault, nil)
	// the start-up needs the index, the services, both safe-search lists and
	// the three hash lists; rule lists that are missing are merely not served
	need := []string{tIdx, tSvc, tSSGen, tSSYT, tHPAdult, tHPDanger, tHPNewReg}
	for _, t := range need {
		if dv[t] == 0 {
			r.Bucket("restarts_skipped_cache_incomplete", 1)
			return
		}
	}
	in, err := newInstance(ru.t, conf)
	if err != nil {
		r.Inconclusive("constructing the storage failed: " + err.Error())
		return
	}
	res := in.start(ctx)
	r.Bucket("restarts_with_server_down", 1)
	if len(unusable) > 0 {
		// The restart-usability clause is about kill points, not about a
		// document the origin served completely and the validators reject:
		// no assertion, the outcome is counted.
		if !res.ok() {
			r.Bucket("observed_restart_fails_on_complete_but_unusable_cached_document", 1)
			return
		}
		r.Bucket("observed_restart_ok_despite_complete_but_unusable_cached_document", 1)
	}
	if !res.ok() {
		wm := witness()
		wm["cache_dir"] = summ
		wm["start_result"] = res
		what := "after the refresh rounds a restart with the server unreachable fails although every cache file exists"
		nbad := 0
		for _, t := range need {
			if dv[t] < 0 {
				nbad++
				wm["unusable_cache_file_of"] = t
				r.Violation(fmt.Sprintf("restart-fails:%s-cached-from-%s", targetClass(t), origin[t]), what, wm)
			}
		}
		if nbad == 0 {
			r.Violation(fmt.Sprintf("restart-fails:all-needed-files-are-complete-versions:after-%s-on-%s", kind, tclass), what, wm)
		}
		return
	}
	r.Bucket("restarts_ok", 1)
	o := in.observe(ctx)
	post, unclean := versionsOf(o)
	for _, t := range unclean {
		wm := witness()
		wm["list"], wm["hits_per_version"] = t, o.Lists[t].Hits
		r.Violation(fmt.Sprintf("restart:serves-incomplete-version:%s", targetClass(t)), "after a restart a list serves something that is not one complete version", wm)
	}
	for _, t := range ruleListTargets {
		if len(o.Foreign[t]) > 0 {
			wm := witness()
			wm["list"], wm["serves_content_of"] = t, o.Foreign[t]
			r.Violation(fmt.Sprintf("restart:list-serves-another-lists-content:after-%s", kind), "after a restart a rule list filters hosts that only another list contains", wm)
		}
	}
	// which rule lists does the index on disk validly list?
	idxV := dv[tIdx]
	for _, t := range servingLists {
		want := dv[t]
		if want < 0 || post[t] < 0 {
			continue
		}
		if targetClass(t) == "rulelist" {
			if idxV <= 0 {
				continue
			}
			if t == tRLb && bytes.Contains(w.legit[tIdx][idxV], []byte("idx-known-")) {
				continue
			}
			if t == tRLc && bytes.Contains(w.legit[tIdx][idxV], []byte(ixAbsURLShort)) {
				continue
			}
		}
		if post[t] != want {
			wm := witness()
			wm["list"], wm["on_disk"], wm["served"], wm["cache_dir"] = t, want, post[t], summ
			r.Violation(fmt.Sprintf("restart:serves-other-than-cache:%s:after-%s-on-%s", targetClass(t), kind, tclass),
				"after a restart with the server down a list does not serve the complete version that is in its cache file", wm)
		} else if want > 0 {
			r.Bucket("restart_lists_verified", 1)
		}
	}
}

// ---- scenario generation ----------------------------------------------------------

// applicable lists the (kind, target) pairs.
func applicable() []faultSpec {
	var out []faultSpec
	for _, k := range genericFaults {
		for _, t := range faultTargets {
			out = append(out, faultSpec{k, t})
		}
	}
	for _, k := range []string{fBadJSONHTML, fBadJSONCut} {
		out = append(out, faultSpec{k, tIdx}, faultSpec{k, tSvc})
	}
	out = append(out, faultSpec{fSvcBadEntry, tSvc})
	for _, t := range hpTargets {
		out = append(out, faultSpec{fHashLongLine, t})
	}
	for _, k := range idxExtraKinds {
		out = append(out, faultSpec{k, tIdx})
	}
	for _, k := range idxKnownKinds {
		out = append(out, faultSpec{k, tIdx})
	}
	for _, k := range idxDupKinds {
		out = append(out, faultSpec{k, tIdx})
	}
	for _, k := range idxAbsentKinds {
		out = append(out, faultSpec{k, tIdx})
	}
	return out
}

// patterns of good (G) and faulty (F) rounds of length <= 4; round 0 is the
// start-up on an empty cache directory.
func allPatterns() []string {
	var out []string
	for L := 1; L <= 4; L++ {
		for m := 0; m < 1<<L; m++ {
			if m == 0 {
				continue
			}
			var sb strings.Builder
			for i := 0; i < L; i++ {
				if m>>i&1 == 1 {
					sb.WriteByte('F')
				} else {
					sb.WriteByte('G')
				}
			}
			out = append(out, sb.String())
		}
	}
	return out
}

func mkScenario(idx int, pat string, f faultSpec, alt *faultSpec, rng *rand.Rand) scenario {
	sc := scenario{Idx: idx}
	nF := 0
	for _, c := range pat {
		if c == 'G' {
			sc.Rounds = append(sc.Rounds, roundSpec{})
			continue
		}
		ff := f
		if nF > 0 && alt != nil {
			ff = *alt
		}
		nF++
		sc.Rounds = append(sc.Rounds, roundSpec{Fault: &faultSpec{ff.Kind, ff.Target}})
	}
	return sc
}

func (ru *runner) scenarios() []scenario {
	r := ru.r
	pairs := applicable()
	pats := allPatterns()
	var withPrev, initial []string
	for _, p := range pats {
		if p[0] == 'G' {
			withPrev = append(withPrev, p)
		} else {
			initial = append(initial, p)
		}
	}
	var out []scenario
	idx := 0
	if r.Thorough() {
		// every pair x every pattern; later faults of a pattern alternate with a
		// second, seeded pair
		for _, f := range pairs {
			for _, p := range pats {
				rng := r.Rand("scenario-gen", idx)
				var alt *faultSpec
				if rng.IntN(2) == 0 {
					a := pairs[rng.IntN(len(pairs))]
					alt = &a
				}
				if slowFault(f.Kind) && strings.Count(p, "F") > 2 {
					continue
				}
				if alt != nil && slowFault(alt.Kind) {
					alt = nil
				}
				out = append(out, mkScenario(idx, p, f, alt, rng))
				idx++
			}
		}
		return out
	}
	// quick: every pair once with a seeded pattern that has a previous version
	// (so every fault kind meets every target at a seeded position), plus one
	// start-up fault pattern for a seeded third of the pairs.
	for _, f := range pairs {
		rng := r.Rand("scenario-gen", idx)
		p := withPrev[rng.IntN(len(withPrev))]
		if slowFault(f.Kind) {
			for strings.Count(p, "F") > 1 {
				p = withPrev[rng.IntN(len(withPrev))]
			}
		}
		var alt *faultSpec
		if rng.IntN(3) == 0 {
			a := pairs[rng.IntN(len(pairs))]
			if !slowFault(a.Kind) {
				alt = &a
			}
		}
		out = append(out, mkScenario(idx, p, f, alt, rng))
		idx++
	}
	for pi, f := range pairs {
		rng := r.Rand("scenario-gen-initial", pi)
		if rng.IntN(3) != 0 || slowFault(f.Kind) {
			continue
		}
		p := initial[rng.IntN(len(initial))]
		out = append(out, mkScenario(idx, p, f, nil, rng))
		idx++
	}
	return out
}

func (ru *runner) faultRounds() {
	r := ru.r
	scs := ru.scenarios()
	r.Extra("scenarios", len(scs))
	workers := 8
	ch := make(chan scenario)
	var wg sync.WaitGroup
	for i := 0; i < workers; i++ {
		wg.Add(1)
		go func() {
			defer wg.Done()
			for sc := range ch {
				func() {
					defer func() {
						if p := recover(); p != nil {
							r.Violation("panic:fault-rounds", fmt.Sprintf("panic while refreshing/filtering: %v", p), map[string]any{"scenario": sc})
						}
					}()
					ts := time.Now()
					ru.runScenario(sc)
					if d := time.Since(ts); d > 1500*time.Millisecond && os.Getenv("VERIF_C13_DEBUG") != "" {
						fmt.Printf("SLOW scenario %d %s %s: %v\n", sc.Idx, sc.pattern(), vkit.JSON(sc.Rounds), d)
					}
				}()
			}
		}()
	}
	for _, sc := range scs {
		ch <- sc
	}
	close(ch)
	wg.Wait()
	ru.mu.Lock()
	r.Extra("distinct_fault_kind_target_position_triples_exercised", len(ru.triples))
	ru.mu.Unlock()
}

func TestCheck(t *testing.T) {
	r := vkit.Start(t, "C13", "fault_enumeration")
	defer r.Finish()
	r.Rule("fault rounds: every (fault kind, download target) pair in a seeded good/faulty pattern of <= 4 rounds (thorough: every pattern); " +
		"class = (kind, target, pattern); non-trivial = the fault was really requested by the code under test while a previous complete version existed. " +
		"crash points: class = (method, syscall or target, N or chunk); non-trivial = the child was killed before it finished. " +
		"overlapping refreshes: class = (completion order, faulted list, fault kind, held download); non-trivial = the schedule was realised (first refresh parked inside a download while the second ran to completion, both returned nil). " +
		"Oracle from the statement: faulted list == version served before; other lists in {before, new}; cache files and restarts only complete versions.")
	r.Assume("every list version is recognisable by probe hosts unique to it (first, middle and last entry); a version counts as served only if all three are filtered")
	r.Assume("a complete version is every body that was transferred completely with status 200 - including documents whose content the code under test then rejects (undecodable JSON index, service index with an invalid id, hash list with an over-long line); bodies of truncated, oversized, empty, non-200 or interrupted transfers never count")
	r.Assume("the restart-usability assertion applies only while no cache file holds such a complete-but-content-invalid document; otherwise the outcome of the restart is only counted (bucket observed_restart_fails_on_complete_but_unusable_cached_document); that the affected list keeps serving its previous content in memory is still asserted")
	r.Assume("temporary files (names starting with '.') are ignored in the cache directory")
	r.Assume("two Refresh calls on one storage may overlap (periodic worker and debug-API refresh); the schedules park the first refresh inside a download by pausing the response, which is decided by the server, not by timing")
	r.Assume("crash points: the child pins the refreshing goroutine to one OS thread so that strace's per-thread 'when=N' enumerates the file system calls of a refresh in order; SIGKILL is delivered on entry of the N-th call (the call does not take effect)")
	r.Assume("durability against power loss (effect of a missing fsync) is not observable by killing a process and is not covered")
	r.Assume("a round in which an error not explained by the injected fault was reported (e.g. a spurious timeout under load) is only held to the lenient rules; it is counted as ambiguous")

	scratch := os.Getenv("VERIF_SCRATCH")
	if scratch == "" {
		scratch = t.TempDir()
	}
	ru := &runner{r: r, t: t, scratch: scratch, timeout: 1000, triples: map[string]struct{}{}}
	t0 := time.Now()
	if os.Getenv("VERIF_C13_SKIP_ROUNDS") == "" {
		ru.faultRounds()
	}
	r.Extra("fault_rounds_wall_s", time.Since(t0).Seconds())

	if os.Getenv("VERIF_C13_SKIP_ROUNDS") == "" {
		ru.overlapRounds()
		ru.extraRounds()
	}

	t1 := time.Now()
	ru.crashPoints()
	r.Extra("crash_points_wall_s", time.Since(t1).Seconds())

	r.Exhaustive(false)
	r.Require("faulty_rounds", 150)
	r.Require("faults_exercised", 150)
	r.Require("lists_advanced", 500)
	r.Require("cache_files_compared", 3000)
	r.Require("restarts_ok", 100)
	r.Require("partial_index_valid_entries_applied", 8)
	r.Require("partial_index_duplicate_key_rounds_with_previous_version", 5)
	r.Require("partial_index_absent_member_rounds_on_live_storage", 5)
	r.Require("deadline_cases_realized", 3)
	r.Require("maxsize_cases/lowered-max-size-restart", 2)
	r.Require("maxsize_cases/oversized-file-source", 2)
	r.Require("maxsize_lists_complete", 6)
	r.Require("overlap_schedules_realized/"+ovFaultedLast, 4)
	r.Require("overlap_schedules_realized/"+ovFaultedFirst, 4)
	r.Require("kills", 90)
	r.Require("kills/stall", 30)
	r.Require("kills/inject", 40)
	r.Require("kills/random", 8)
	r.Require("distinct_crash_points", 70)
	r.Require("distinct_crash_points/inject/renameat", 12)
	r.Require("distinct_crash_points/inject/fsync", 6)
	r.Require("distinct_crash_points/inject/utimensat", 6)
	r.Require("restarts_after_kill_verified", 90)
}
