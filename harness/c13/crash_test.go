package c13

func (ru *runner) crashPoints() {}
