package c13

import (
	"bufio"
	"bytes"
	"context"
	"encoding/json"
	"fmt"
	"os"
	"os/exec"
	"path/filepath"
	"regexp"
	"runtime"
	"sort"
	"strconv"
	"strings"
	"sync"
	"syscall"
	"testing"
	"time"
)

// ---- child side ---------------------------------------------------------------------

const childEnv = "VERIF_C13_CHILD"

type childConf struct {
	Inst   instConf `json:"inst"`
	Role   string   `json:"role"` // "refresh": start, then Rounds refreshes; "restart": start, observe
	Rounds int      `json:"rounds"`
	Out    string   `json:"out"`
}

type childEvent struct {
	Ev  string       `json:"ev"`
	K   int          `json:"k,omitempty"`
	Res *refreshRes  `json:"res,omitempty"`
	Obs *observation `json:"obs,omitempty"`
	Err string       `json:"err,omitempty"`
}

// TestChild is the body of the child processes of the crash-point experiment.
// It does nothing unless the parent set the role variable.
func TestChild(t *testing.T) {
	raw := os.Getenv(childEnv)
	if raw == "" {
		t.Skip("not a child")
	}
	// All file system calls of a refresh are made by the goroutine that calls
	// Refresh; pinning it to one thread makes "the N-th renameat/fsync/... of
	// the thread" (how strace counts injections) enumerate them in order.
	runtime.LockOSThread()
	var cc childConf
	if err := json.Unmarshal([]byte(raw), &cc); err != nil {
		fmt.Fprintln(os.Stderr, "child: bad conf:", err)
		os.Exit(3)
	}
	out, err := os.OpenFile(cc.Out, os.O_WRONLY|os.O_CREATE|os.O_APPEND, 0o644)
	if err != nil {
		fmt.Fprintln(os.Stderr, "child: out:", err)
		os.Exit(3)
	}
	emit := func(e childEvent) {
		b, _ := json.Marshal(e)
		_, _ = out.Write(append(b, '\n'))
	}
	ctx := context.Background()
	in, err := newInstance(t, cc.Inst)
	if err != nil {
		emit(childEvent{Ev: "construct-failed", Err: err.Error()})
		os.Exit(4)
	}
	res := in.start(ctx)
	emit(childEvent{Ev: "start-done", Res: &res})
	if !res.ok() {
		// the real binary exits when the initial refresh fails
		os.Exit(5)
	}
	switch cc.Role {
	case "refresh":
		for k := 1; k <= cc.Rounds; k++ {
			rr := in.refresh(ctx)
			emit(childEvent{Ev: "round-done", K: k, Res: &rr})
		}
	case "restart":
		o := in.observe(ctx)
		emit(childEvent{Ev: "observation", Obs: &o})
	}
	emit(childEvent{Ev: "exit"})
	_ = out.Close()
	os.Exit(0)
}

// ---- parent side --------------------------------------------------------------------

type childRun struct {
	Events   []childEvent
	ExitCode int
	Signal   string
	Stderr   string
	Dur      time.Duration
}

func (c childRun) has(ev string) bool {
	for _, e := range c.Events {
		if e.Ev == ev {
			return true
		}
	}
	return false
}

func (c childRun) roundsDone() int {
	n := 0
	for _, e := range c.Events {
		if e.Ev == "round-done" {
			n++
		}
	}
	return n
}

func readEvents(path string) []childEvent {
	f, err := os.Open(path)
	if err != nil {
		return nil
	}
	defer f.Close()
	var out []childEvent
	sc := bufio.NewScanner(f)
	sc.Buffer(make([]byte, 1<<20), 1<<24)
	for sc.Scan() {
		var e childEvent
		if json.Unmarshal(sc.Bytes(), &e) == nil && e.Ev != "" {
			out = append(out, e)
		}
	}
	return out
}

// crashWorld is one worker's servers, template cache directory and work area.
type crashWorld struct {
	w        *world
	base     string
	template string
	tmplDisk map[string][]byte
	vmax     int
	timeout  int
	seq      int
}

// offer scripts every server: the n-th request for a target gets complete
// version first+n (the mark list is static).  gate, if not nil, replaces the
// first response of one target by a stalled transfer.
func (cw *crashWorld) offer(first int, gate *behaviour, gateTarget string) {
	for _, t := range allTargets {
		t := t
		cw.w.srv[t].setScript(func(n int) behaviour {
			v := first + n
			if v > cw.vmax {
				v = cw.vmax
			}
			if gate != nil && t == gateTarget && n == 0 {
				return *gate
			}
			return behaviour{Kind: bOK, Body: cw.w.content(t, v), Chunked: (n+len(t))%2 == 0, Version: v}
		})
	}
}

type startedChild struct {
	cmd    *exec.Cmd
	out    string
	stderr *bytes.Buffer
	t0     time.Time
}

// startChild launches a child (optionally under a wrapper such as strace).
func (cw *crashWorld) startChild(dir, role string, rounds int, wrapper []string) (*startedChild, error) {
	cw.seq++
	out := filepath.Join(cw.base, fmt.Sprintf("child-%d.events", cw.seq))
	tmp := filepath.Join(cw.base, "tmp")
	_ = os.MkdirAll(tmp, 0o755)
	cc := childConf{
		Inst:   instConf{Dir: dir, URLs: cw.w.urls, TimeoutMs: cw.timeout, VMax: cw.vmax},
		Role:   role,
		Rounds: rounds,
		Out:    out,
	}
	b, _ := json.Marshal(cc)
	args := append([]string{}, wrapper...)
	args = append(args, os.Args[0], "-test.run=^TestChild$", "-test.count=1")
	cmd := exec.Command(args[0], args[1:]...)
	cmd.Env = append(os.Environ(), childEnv+"="+string(b), "TMPDIR="+tmp, "GOMAXPROCS=2", "GORACE=")
	var eb bytes.Buffer
	cmd.Stderr = &eb
	cmd.Stdout = nil
	cmd.SysProcAttr = &syscall.SysProcAttr{Setpgid: true}
	sc := &startedChild{cmd: cmd, out: out, stderr: &eb, t0: time.Now()}
	if err := cmd.Start(); err != nil {
		return nil, err
	}
	return sc, nil
}

// kill SIGKILLs the child's whole process group (strace and tracee).
func (sc *startedChild) kill() {
	if sc.cmd.Process != nil {
		_ = syscall.Kill(-sc.cmd.Process.Pid, syscall.SIGKILL)
	}
}

func (sc *startedChild) wait(limit time.Duration) (cr childRun, timedOut bool) {
	done := make(chan error, 1)
	go func() { done <- sc.cmd.Wait() }()
	select {
	case <-done:
	case <-time.After(limit):
		timedOut = true
		sc.kill()
		<-done
	}
	cr.Dur = time.Since(sc.t0)
	if ps := sc.cmd.ProcessState; ps != nil {
		cr.ExitCode = ps.ExitCode()
		if ws, ok := ps.Sys().(syscall.WaitStatus); ok && ws.Signaled() {
			cr.Signal = ws.Signal().String()
		}
	}
	cr.Stderr = sc.stderr.String()
	if len(cr.Stderr) > 2000 {
		cr.Stderr = cr.Stderr[len(cr.Stderr)-2000:]
	}
	cr.Events = readEvents(sc.out)
	_ = os.Remove(sc.out)
	return cr, timedOut
}

const childLimit = 120 * time.Second

func copyDir(src, dst string) error {
	if err := os.MkdirAll(dst, 0o755); err != nil {
		return err
	}
	des, err := os.ReadDir(src)
	if err != nil {
		return err
	}
	for _, de := range des {
		if !de.Type().IsRegular() {
			continue
		}
		b, err := os.ReadFile(filepath.Join(src, de.Name()))
		if err != nil {
			return err
		}
		if err = os.WriteFile(filepath.Join(dst, de.Name()), b, 0o600); err != nil {
			return err
		}
	}
	return nil
}

func (ru *runner) newCrashWorld(id int, vmax int) (*crashWorld, error) {
	r := ru.r
	rng := r.Rand("crash-world", id)
	w, err := newWorld(rng)
	if err != nil {
		return nil, err
	}
	cw := &crashWorld{w: w, base: filepath.Join(ru.scratch, fmt.Sprintf("crash%02d", id)), vmax: vmax, timeout: 8000}
	cw.template = filepath.Join(cw.base, "template")
	if err = os.MkdirAll(cw.template, 0o755); err != nil {
		w.close()
		return nil, err
	}
	for _, t := range allTargets {
		for v := 1; v <= vmax; v++ {
			w.legit.add(t, v, w.content(t, v))
		}
		w.srv[t].gateCh = make(chan gateEvt, 4)
	}
	// The template (version 1 of everything) is produced by the real code: a
	// child that starts on an empty cache directory.
	cw.offer(1, nil, "")
	sc, err := cw.startChild(cw.template, "restart", 0, nil)
	if err != nil {
		w.close()
		return nil, err
	}
	cr, _ := sc.wait(childLimit)
	if !cr.has("exit") {
		w.close()
		return nil, fmt.Errorf("template child failed: exit=%d signal=%s events=%s stderr=%s", cr.ExitCode, cr.Signal, vkit_json(cr.Events), cr.Stderr)
	}
	cw.tmplDisk, err = readDisk(cw.template)
	if err != nil {
		w.close()
		return nil, err
	}
	for _, t := range allTargets {
		name := cacheFileOf(t)
		if t == tMark {
			name = markPrefix + "1"
		}
		if v, ok := w.legit.versionOf(t, cw.tmplDisk[name]); !ok || v != 1 {
			w.close()
			return nil, fmt.Errorf("template lacks version 1 of %s", name)
		}
	}
	return cw, nil
}

func vkit_json(v any) string {
	b, _ := json.Marshal(v)
	return string(b)
}

func (cw *crashWorld) close() {
	cw.w.close()
	_ = os.RemoveAll(cw.base)
}

// diskAfterKill checks the cache directory after a kill: every file that
// existed before is still there and every file is a complete version that the
// case allows.  It returns the state signature (one character per target).
func (ru *runner) diskAfterKill(cw *crashWorld, dir string, maxV int, checkMissing bool, key string, wit map[string]any) (sig string, vers map[string]int, ok bool) {
	r := ru.r
	ok = true
	files, err := readDisk(dir)
	if err != nil {
		r.Inconclusive("cannot read cache dir: " + err.Error())
		return "", nil, false
	}
	vers = map[string]int{}
	summ := map[string]string{}
	bad := func(k, what, name string, b []byte) {
		ok = false
		wm := map[string]any{}
		for a, x := range wit {
			wm[a] = x
		}
		wm["file"], wm["cache_dir"] = name, summ
		if b != nil {
			wm["file_bytes"] = describeBytes(b)
		}
		r.Violation(key+":"+k, what, wm)
	}
	names := make([]string, 0, len(files))
	for n := range files {
		names = append(names, n)
	}
	sort.Strings(names)
	for _, n := range names {
		t, known := targetOfFile(n)
		if !known {
			r.Bucket("cache_files_unknown_name", 1)
			summ[n] = "unknown-file"
			continue
		}
		r.Bucket("cache_files_compared_after_kill", 1)
		v, legit := cw.w.legit.versionOf(t, files[n])
		if !legit || (t != tMark && v > maxV) {
			what := "unrecognised"
			for lv, lb := range cw.w.legit[t] {
				if len(files[n]) < len(lb) && bytes.HasPrefix(lb, files[n]) {
					what = fmt.Sprintf("a strict prefix (%d of %d bytes) of complete version %d", len(files[n]), len(lb), lv)
				}
			}
			summ[n] = "NOT-A-COMPLETE-VERSION: " + what
			if t != tMark {
				vers[t] = -1
			}
			bad("cache-file-not-previous-or-new:"+targetClass(t), "after the kill a cache file is neither the previous nor the new complete version ("+what+")", n, files[n])
			continue
		}
		summ[n] = fmt.Sprintf("v%d", v)
		if t != tMark {
			vers[t] = v
		}
	}
	for n := range cw.tmplDisk {
		if _, there := files[n]; !there && checkMissing {
			summ[n] = "MISSING"
			bad("cache-file-missing", "after the kill a cache file that existed before the refresh is gone", n, nil)
		}
	}
	var sb strings.Builder
	for _, t := range allTargets {
		if t == tMark {
			m := 0
			for n := range files {
				if strings.HasPrefix(n, markPrefix) {
					m++
				}
			}
			sb.WriteString(strconv.Itoa(m))
			sb.WriteByte('|')
			continue
		}
		switch v := vers[t]; {
		case v < 0:
			sb.WriteByte('X')
		case v == 0:
			sb.WriteByte('-')
		default:
			sb.WriteString(strconv.Itoa(v))
		}
	}
	wit["cache_dir"] = summ
	return sb.String(), vers, ok
}

// restartAfterKill starts a new child on dir with every server down and checks
// that it starts and serves, for every list, the complete version on disk.
func (ru *runner) restartAfterKill(cw *crashWorld, dir string, vers map[string]int, key string, wit map[string]any) {
	r := ru.r
	cw.w.allDown()
	defer func() {
		if err := cw.w.allUp(); err != nil {
			r.Inconclusive("crash world: " + err.Error())
		}
	}()
	sc, err := cw.startChild(dir, "restart", 0, nil)
	if err != nil {
		r.Inconclusive("cannot start child: " + err.Error())
		return
	}
	cr, timedOut := sc.wait(childLimit)
	if timedOut {
		r.Bucket("child_watchdog", 1)
		r.Inconclusive("restart child hit the watchdog")
		return
	}
	r.Bucket("restarts_after_kill", 1)
	cp := func() map[string]any {
		wm := map[string]any{}
		for a, x := range wit {
			wm[a] = x
		}
		wm["restart_child"] = map[string]any{"exit": cr.ExitCode, "signal": cr.Signal, "events": cr.Events, "stderr": cr.Stderr}
		return wm
	}
	var obs *observation
	for _, e := range cr.Events {
		if e.Ev == "observation" {
			obs = e.Obs
		}
	}
	if obs == nil || !cr.has("exit") {
		r.Violation(key+":restart-fails", "after the kill a new process cannot start from the cache directory with the server down", cp())
		return
	}
	post, unclean := versionsOf(*obs)
	for _, t := range unclean {
		wm := cp()
		wm["list"], wm["hits_per_version"] = t, obs.Lists[t].Hits
		r.Violation(key+":restart-serves-incomplete-version:"+targetClass(t), "after kill and restart a list serves something that is not one complete version", wm)
	}
	good := true
	for _, t := range servingLists {
		if vers[t] <= 0 || post[t] < 0 {
			continue
		}
		if post[t] != vers[t] {
			good = false
			wm := cp()
			wm["list"], wm["on_disk"], wm["served"] = t, vers[t], post[t]
			r.Violation(key+":restart-serves-other-than-cache:"+targetClass(t), "after kill and restart a list does not serve the complete version that is in its cache file", wm)
		}
	}
	if len(obs.Foreign) > 0 {
		good = false
		wm := cp()
		wm["serves_content_of"] = obs.Foreign
		r.Violation(key+":restart-list-serves-another-lists-content", "after kill and restart a rule list filters hosts that only another list contains", wm)
	}
	if len(obs.Errs) > 0 {
		good = false
		r.Violation(key+":restart-filtering-error", "after kill and restart filtering fails", cp())
	}
	if good {
		r.Bucket("restarts_after_kill_verified", 1)
	}
}

type crashCase struct {
	Idx    int     `json:"idx"`
	Method string  `json:"method"` // "stall", "inject", "random", "stall-empty-cache"
	Target string  `json:"target,omitempty"`
	Chunk  int     `json:"chunk,omitempty"`
	Of     int     `json:"of_chunks,omitempty"`
	Sys    string  `json:"syscall,omitempty"`
	N      int     `json:"n,omitempty"`
	Frac   float64 `json:"kill_at_fraction,omitempty"`
	Rounds int     `json:"rounds,omitempty"`
}

func (c crashCase) class() string {
	switch c.Method {
	case "inject":
		return fmt.Sprintf("crash/inject/%s/%d", c.Sys, c.N)
	case "random":
		return fmt.Sprintf("crash/random/%d", c.Idx)
	default:
		return fmt.Sprintf("crash/%s/%s/%d-of-%d", c.Method, c.Target, c.Chunk, c.Of)
	}
}

type crashStats struct {
	mu     sync.Mutex
	points map[string]struct{}
	bySys  map[string]map[string]struct{}
}

func (cs *crashStats) hit(method, sys string, sig string, last string) {
	cs.mu.Lock()
	defer cs.mu.Unlock()
	k := fmt.Sprintf("%s|%s|%s|%s", method, sys, sig, last)
	cs.points[k] = struct{}{}
	if cs.bySys[method+"/"+sys] == nil {
		cs.bySys[method+"/"+sys] = map[string]struct{}{}
	}
	cs.bySys[method+"/"+sys][sig+"|"+last] = struct{}{}
}

// lastServed tells which target the servers completed last (progress of the
// child as seen from outside).
func (cw *crashWorld) progress() string {
	var parts []string
	for _, t := range allTargets {
		n := 0
		for _, rec := range cw.w.srv[t].takeLog() {
			if rec.Complete {
				n++
			}
		}
		parts = append(parts, strconv.Itoa(n))
	}
	return strings.Join(parts, ",")
}

func (ru *runner) runCrashCase(cw *crashWorld, c crashCase, st *crashStats, calib time.Duration, calibFirst time.Duration) {
	r := ru.r
	rng := r.Rand("crash-case", c.Idx)
	dir := filepath.Join(cw.base, fmt.Sprintf("case%05d", c.Idx))
	defer os.RemoveAll(dir)
	_ = os.RemoveAll(dir)
	emptyCache := c.Method == "stall-empty-cache"
	if emptyCache {
		if err := os.MkdirAll(dir, 0o755); err != nil {
			r.Inconclusive(err.Error())
			return
		}
	} else if err := copyDir(cw.template, dir); err != nil {
		r.Inconclusive("copy template: " + err.Error())
		return
	}
	for _, t := range allTargets {
		cw.w.srv[t].takeLog()
		for len(cw.w.srv[t].gateCh) > 0 {
			<-cw.w.srv[t].gateCh
		}
	}
	wit := map[string]any{"case": c}
	key := "crash-" + c.Method
	killed := false
	maxV := 2
	first := 2
	if emptyCache {
		first, maxV = 1, 1
	}
	var cr childRun
	switch c.Method {
	case "stall", "stall-empty-cache":
		body := cw.w.content(c.Target, first)
		g := behaviour{Kind: bGate, Body: body, GateChunk: c.Chunk, Version: first}
		cw.offer(first, &g, c.Target)
		sc, err := cw.startChild(dir, "refresh", 1, nil)
		if err != nil {
			r.Inconclusive("cannot start child: " + err.Error())
			return
		}
		exited := make(chan struct{})
		var timedOut bool
		go func() { cr, timedOut = sc.wait(childLimit); close(exited) }()
		select {
		case <-cw.w.srv[c.Target].gateCh:
			// the child is blocked reading the stalled transfer
			time.Sleep(time.Duration(1+rng.IntN(6)) * time.Millisecond)
			sc.kill()
			killed = true
			<-exited
		case <-exited:
			r.Bucket("stall_not_reached", 1)
		}
		if timedOut {
			r.Bucket("child_watchdog", 1)
			return
		}
	case "inject":
		cw.offer(2, nil, "")
		wrapper := []string{"strace", "-f", "-qq", "-o", "/dev/null", "-e", "trace=" + c.Sys, "-e", fmt.Sprintf("inject=%s:signal=SIGKILL:when=%d", c.Sys, c.N)}
		sc, err := cw.startChild(dir, "refresh", 1, wrapper)
		if err != nil {
			r.Inconclusive("cannot start strace: " + err.Error())
			return
		}
		var timedOut bool
		cr, timedOut = sc.wait(childLimit)
		if timedOut {
			r.Bucket("child_watchdog", 1)
			return
		}
		killed = !cr.has("exit")
		if !killed {
			r.Bucket("inject_not_hit", 1)
		}
	case "random":
		maxV = c.Rounds + 1
		cw.offer(2, nil, "")
		sc, err := cw.startChild(dir, "refresh", c.Rounds, nil)
		if err != nil {
			r.Inconclusive("cannot start child: " + err.Error())
			return
		}
		exited := make(chan struct{})
		var timedOut bool
		go func() { cr, timedOut = sc.wait(childLimit); close(exited) }()
		delay := calibFirst + time.Duration(c.Frac*float64(calib-calibFirst))
		select {
		case <-time.After(delay):
			sc.kill()
			<-exited
			killed = !cr.has("exit")
		case <-exited:
		}
		if timedOut {
			r.Bucket("child_watchdog", 1)
			return
		}
		if !killed {
			r.Bucket("random_kill_too_late", 1)
		}
	}
	wit["child"] = map[string]any{"exit": cr.ExitCode, "signal": cr.Signal, "events": cr.Events, "stderr": cr.Stderr, "killed": killed}
	prog := cw.progress()
	wit["downloads_completed_per_target"] = prog
	if !killed && !cr.has("exit") {
		// the child died by itself
		r.Violation(key+":child-died", "the refreshing child process died without being killed", wit)
	}
	sig, vers, ok := ru.diskAfterKill(cw, dir, maxV, !emptyCache, key, wit)
	if killed {
		r.Bucket("kills", 1)
		r.Bucket("kills/"+c.Method, 1)
		sys := c.Sys
		if c.Method != "inject" {
			sys = c.Target
		}
		if c.Method == "stall" || c.Method == "stall-empty-cache" {
			sys = fmt.Sprintf("%s@chunk%d", c.Target, c.Chunk)
		}
		st.hit(c.Method, sys, sig, prog)
	}
	if (c.Method == "stall") && killed && vers[c.Target] != 1 && c.Target != tMark && vers[c.Target] >= 0 {
		r.Violation(key+":stalled-download-already-committed:"+targetClass(c.Target),
			"the cache file was replaced although the transfer of the new version never completed", wit)
	}
	if emptyCache {
		// nothing to restart from unless everything was downloaded; the files
		// that exist were checked above
		r.Eval(c.class(), killed)
		return
	}
	if ok {
		ru.restartAfterKill(cw, dir, vers, key, wit)
	}
	r.Eval(c.class(), killed)
	if c.Idx%37 == 5 {
		r.Sample(map[string]any{"crash_case": c, "killed": killed, "cache_dir_signature(idx,marks|,rl_a,rl_b,rl_c,svc,ss_gen,ss_yt,hp*3)": sig, "downloads_completed": prog})
	}
}

var straceLine = regexp.MustCompile(`^(\d+)\s+([a-z0-9_]+)\(`)

// calibrate runs one complete child under strace and returns, per syscall of
// interest, the largest per-thread count, plus plain timing of an untraced run.
func (ru *runner) calibrate(cw *crashWorld, syscalls []string, rounds int) (counts map[string]int, total, first time.Duration, err error) {
	dir := filepath.Join(cw.base, "calib")
	defer os.RemoveAll(dir)
	if err = copyDir(cw.template, dir); err != nil {
		return nil, 0, 0, err
	}
	cw.offer(2, nil, "")
	logf := filepath.Join(cw.base, "strace.log")
	wrapper := []string{"strace", "-f", "-qq", "-o", logf, "-e", "trace=" + strings.Join(syscalls, ",")}
	sc, err := cw.startChild(dir, "refresh", 1, wrapper)
	if err != nil {
		return nil, 0, 0, err
	}
	cr, _ := sc.wait(childLimit)
	if !cr.has("exit") {
		return nil, 0, 0, fmt.Errorf("calibration child under strace failed: exit=%d signal=%s stderr=%s", cr.ExitCode, cr.Signal, cr.Stderr)
	}
	b, err := os.ReadFile(logf)
	if err != nil {
		return nil, 0, 0, err
	}
	_ = os.Remove(logf)
	per := map[string]map[string]int{}
	for _, ln := range strings.Split(string(b), "\n") {
		m := straceLine.FindStringSubmatch(ln)
		if m == nil {
			continue
		}
		if per[m[2]] == nil {
			per[m[2]] = map[string]int{}
		}
		per[m[2]][m[1]]++
	}
	counts = map[string]int{}
	for s, byPid := range per {
		for _, n := range byPid {
			if n > counts[s] {
				counts[s] = n
			}
		}
	}
	// untraced timing for the random kills
	_ = os.RemoveAll(dir)
	if err = copyDir(cw.template, dir); err != nil {
		return nil, 0, 0, err
	}
	for _, t := range allTargets {
		cw.w.srv[t].takeLog()
	}
	cw.offer(2, nil, "")
	firstReq := make(chan time.Duration, 1)
	t0 := time.Now()
	stop := make(chan struct{})
	go func() {
		for {
			cw.w.srv[tIdx].mu.Lock()
			n := cw.w.srv[tIdx].reqs
			cw.w.srv[tIdx].mu.Unlock()
			if n > 0 {
				firstReq <- time.Since(t0)
				return
			}
			select {
			case <-stop:
				return
			case <-time.After(200 * time.Microsecond):
			}
		}
	}()
	sc, err = cw.startChild(dir, "refresh", rounds, nil)
	if err != nil {
		close(stop)
		return nil, 0, 0, err
	}
	cr, _ = sc.wait(childLimit)
	close(stop)
	if !cr.has("exit") {
		return nil, 0, 0, fmt.Errorf("calibration child failed: exit=%d signal=%s stderr=%s", cr.ExitCode, cr.Signal, cr.Stderr)
	}
	total = cr.Dur
	select {
	case first = <-firstReq:
	default:
		first = total / 3
	}
	return counts, total, first, nil
}

func (ru *runner) crashPoints() {
	r := ru.r
	if os.Getenv("VERIF_C13_SKIP_CRASH") != "" {
		return
	}
	if _, err := exec.LookPath("strace"); err != nil {
		r.Inconclusive("strace is not available")
		return
	}
	randRounds := r.N(5, 8)
	vmax := randRounds + 2
	workers := 6
	cws := make([]*crashWorld, 0, workers)
	for i := 0; i < workers; i++ {
		cw, err := ru.newCrashWorld(i, vmax)
		if err != nil {
			r.Inconclusive("crash world: " + err.Error())
			for _, c := range cws {
				c.close()
			}
			return
		}
		cws = append(cws, cw)
	}
	defer func() {
		for _, c := range cws {
			c.close()
		}
	}()

	fileSys := []string{"renameat", "utimensat", "fsync", "unlinkat"}
	noisySys := []string{"openat", "write", "close", "read", "connect", "fstat"}
	counts, total, first, err := ru.calibrate(cws[0], append(append([]string{}, fileSys...), noisySys...), randRounds)
	if err != nil {
		r.Inconclusive(err.Error())
		return
	}
	r.Extra("strace_max_per_thread_syscall_counts_in_one_refresh", counts)
	r.Extra("untraced_child_wall_ms", total.Milliseconds())

	var cases []crashCase
	idx := 0
	add := func(c crashCase) { c.Idx = idx; idx++; cases = append(cases, c) }
	// (a) stalled transfer, chunk k of m, every target
	for _, t := range allTargets {
		m := (len(cws[0].w.content(t, 2)) + chunkSize - 1) / chunkSize
		ks := map[int]bool{0: true, m: true}
		if r.Thorough() {
			for k := 0; k <= m; k++ {
				ks[k] = true
			}
		} else {
			rng := r.Rand("crash-stall-k", len(cases))
			for len(ks) < min(4, m+1) {
				ks[rng.IntN(m+1)] = true
			}
		}
		var kl []int
		for k := range ks {
			kl = append(kl, k)
		}
		sort.Ints(kl)
		for _, k := range kl {
			add(crashCase{Method: "stall", Target: t, Chunk: k, Of: m})
		}
	}
	// (a') the same while the cache directory is being filled for the first time
	for i, t := range allTargets {
		if !r.Thorough() && i%3 != int(r.Seed%3) {
			continue
		}
		m := (len(cws[0].w.content(t, 1)) + chunkSize - 1) / chunkSize
		add(crashCase{Method: "stall-empty-cache", Target: t, Chunk: m / 2, Of: m})
	}
	// (b) SIGKILL injected at the N-th syscall of a kind
	for _, s := range fileSys {
		n := counts[s]
		if n == 0 {
			r.Bucket("syscall_never_seen/"+s, 1)
			continue
		}
		lim := r.N(24, 1000)
		rng := r.Rand("crash-inject-"+s, 0)
		picked := map[int]bool{1: true, n: true}
		if n <= lim {
			for k := 1; k <= n; k++ {
				picked[k] = true
			}
		}
		for len(picked) < min(lim, n) {
			picked[1+rng.IntN(n)] = true
		}
		var ns []int
		for k := range picked {
			ns = append(ns, k)
		}
		sort.Ints(ns)
		for _, k := range ns {
			add(crashCase{Method: "inject", Sys: s, N: k})
		}
	}
	for _, s := range noisySys {
		n := counts[s]
		if n == 0 {
			continue
		}
		lim := r.N(7, 60)
		rng := r.Rand("crash-inject-"+s, 0)
		picked := map[int]bool{}
		for len(picked) < min(lim, n-n/3) {
			// the second half of a thread's calls is where the refresh happens
			picked[1+n/3+rng.IntN(n-n/3)] = true
		}
		var ns []int
		for k := range picked {
			ns = append(ns, k)
		}
		sort.Ints(ns)
		for _, k := range ns {
			add(crashCase{Method: "inject", Sys: s, N: k})
		}
	}
	// (c) seeded random instants during several consecutive refreshes
	for i := 0; i < r.N(24, 150); i++ {
		rng := r.Rand("crash-random", i)
		add(crashCase{Method: "random", Frac: rng.Float64(), Rounds: randRounds})
	}
	r.Extra("crash_cases", len(cases))

	st := &crashStats{points: map[string]struct{}{}, bySys: map[string]map[string]struct{}{}}
	ch := make(chan crashCase)
	var wg sync.WaitGroup
	for _, cw := range cws {
		cw := cw
		wg.Add(1)
		go func() {
			defer wg.Done()
			for c := range ch {
				func() {
					defer func() {
						if p := recover(); p != nil {
							r.Inconclusive(fmt.Sprintf("panic in the crash-point harness: %v", p))
						}
					}()
					ru.runCrashCase(cw, c, st, total, first)
				}()
			}
		}()
	}
	for _, c := range cases {
		ch <- c
	}
	close(ch)
	wg.Wait()

	st.mu.Lock()
	r.Bucket("distinct_crash_points", int64(len(st.points)))
	per := map[string]int{}
	for k, m := range st.bySys {
		per[k] = len(m)
		if strings.HasPrefix(k, "inject/") {
			r.Bucket("distinct_crash_points/"+k, int64(len(m)))
		}
	}
	st.mu.Unlock()
	r.Extra("distinct_crash_points_by_method_and_syscall_or_target", per)
}
