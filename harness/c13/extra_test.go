package c13

import (
	"context"
	"fmt"
	"os"
	"path/filepath"
	"time"
)

// ---- a list stalls until the deadline of the whole refresh ----------------------
//
// Refresh is called with a context whose deadline is much shorter than the
// per-download timeout; the download of the k-th rule list (not the last one)
// stalls, so the overall deadline hits while it is in flight.  Blocked services
// and safe search are disabled, so nothing after the rule lists can fail.
// Afterwards every list must still serve a complete previous-or-new version.

type deadlineCase struct {
	Idx   int    `json:"idx"`
	Stall string `json:"stalled_list"`
	Kind  string `json:"stall_kind"`
}

func (ru *runner) runDeadline(dc deadlineCase) {
	r := ru.r
	rng := r.Rand("deadline-run", dc.Idx)
	w, err := newWorld(rng)
	if err != nil {
		r.Bucket("scenarios_skipped_no_port", 1)
		return
	}
	defer w.close()
	dir := filepath.Join(ru.scratch, fmt.Sprintf("d%05d", dc.Idx), "cache")
	if err = os.MkdirAll(dir, 0o755); err != nil {
		r.Inconclusive("mkdir: " + err.Error())
		return
	}
	defer os.RemoveAll(filepath.Dir(dir))
	conf := instConf{Dir: dir, URLs: w.urls, TimeoutMs: 15000, VMax: 3, NoSvcSS: true}
	ctx := context.Background()
	if err = w.setRound(1, nil, rng); err != nil {
		r.Bucket("scenarios_aborted_relisten", 1)
		return
	}
	in, err := newInstance(ru.t, conf)
	if err != nil {
		r.Inconclusive("constructing the storage failed: " + err.Error())
		return
	}
	if res := in.start(ctx); !res.ok() {
		r.Bucket("deadline_start_failed", 1)
		return
	}
	preObs := in.observe(ctx)
	pre, _ := versionsOf(preObs)

	const v = 2
	f := &faultSpec{Kind: dc.Kind, Target: dc.Stall}
	if err = w.setRound(v, f, rng); err != nil {
		r.Bucket("scenarios_aborted_relisten", 1)
		return
	}
	for _, t := range allTargets {
		w.srv[t].takeLog()
	}
	dctx, cancel := context.WithTimeout(ctx, 400*time.Millisecond)
	t0 := time.Now()
	rerr := in.st.Refresh(dctx)
	took := time.Since(t0)
	cancel()
	collected := in.errs.take()
	// the stalled response is released by the client going away
	requested := false
	for i := 0; i < 200 && !requested; i++ {
		requested = len(w.srv[dc.Stall].takeLog()) > 0
		if !requested {
			time.Sleep(5 * time.Millisecond)
		}
	}
	realized := requested && took >= 350*time.Millisecond && took < 10*time.Second
	r.Bucket("deadline_cases", 1)
	if realized {
		r.Bucket("deadline_cases_realized", 1)
	}
	o := in.observe(ctx)
	post, unclean := versionsOf(o)
	wit := func(extra map[string]any) map[string]any {
		m := map[string]any{"case": dc, "served_before": pre, "served_after": post, "has_list_id": o.Has,
			"refresh_error": fmt.Sprint(rerr), "refresh_took_ms": took.Milliseconds(), "collected": collected,
			"index_marks_before": preObs.Marks, "index_marks_after": o.Marks}
		for k, x := range extra {
			m[k] = x
		}
		return m
	}
	for _, t := range unclean {
		r.Violation("deadline:serves-incomplete-version:"+targetClass(t), "after a refresh that ran into its deadline a list serves something that is not one complete version", wit(map[string]any{"list": t}))
	}
	for _, t := range ruleListTargets {
		p, q := pre[t], post[t]
		if p < 0 || q < 0 || q == p || q == v && t != dc.Stall {
			continue
		}
		role, what := "other-list", "wrong-version"
		if t == dc.Stall {
			role = "stalled-list"
		}
		if q == 0 {
			what = "dropped"
		}
		r.Violation(fmt.Sprintf("deadline:%s-%s:rulelist", role, what),
			"after a refresh whose overall deadline expired during the download of one list, a list serves neither its previous nor its new complete version",
			wit(map[string]any{"list": t}))
	}
	if !intsEq(o.Marks, preObs.Marks) && !intsEq(o.Marks, []int{v}) {
		r.Violation("deadline:index-neither-previous-nor-new", "after a refresh that ran into its deadline the applied index is neither the previous nor the new one", wit(nil))
	}
	ru.checkDisk(w, dir, f, func() map[string]any { return wit(nil) })
	r.Eval(fmt.Sprintf("deadline|%s|%s", dc.Stall, dc.Kind), realized)
}

// ---- cached / file-sourced lists larger than the configured maximum --------------
//
// A list that is read from the cache file (restart with a lowered max_size, the
// server down) or from a file:// source and is larger than the maximum must be
// loaded completely or rejected with an error, never truncated.

func (ru *runner) runLoweredMaxSize(idx int, fileSource bool) {
	r := ru.r
	rng := r.Rand("maxsize-run", idx)
	w, err := newWorld(rng)
	if err != nil {
		r.Bucket("scenarios_skipped_no_port", 1)
		return
	}
	defer w.close()
	base := filepath.Join(ru.scratch, fmt.Sprintf("m%05d", idx))
	dir := filepath.Join(base, "cache")
	if err = os.MkdirAll(dir, 0o755); err != nil {
		r.Inconclusive("mkdir: " + err.Error())
		return
	}
	defer os.RemoveAll(base)
	ctx := context.Background()
	if err = w.setRound(1, nil, rng); err != nil {
		r.Bucket("scenarios_aborted_relisten", 1)
		return
	}
	urls := map[string]string{}
	for k, u := range w.urls {
		urls[k] = u
	}
	small := len(listText(tHPAdult, 1)) * 2 / 3
	key := "lowered-max-size-restart"
	conf := instConf{Dir: dir, URLs: urls, TimeoutMs: 5000, VMax: 2}
	if fileSource {
		key = "oversized-file-source"
		for _, t := range hpTargets {
			p := filepath.Join(base, "src-"+t)
			if err = os.WriteFile(p, listText(t, 1), 0o644); err != nil {
				r.Inconclusive(err.Error())
				return
			}
			urls[t] = "file://" + p
		}
		// only the hash lists are affected: the rule lists are not in the
		// cache yet and come over HTTP
		conf.ListMaxSize = 0
	} else {
		// fill the cache with version 1 under the normal maximum
		in0, e := newInstance(ru.t, conf)
		if e != nil {
			r.Inconclusive("constructing the storage failed: " + e.Error())
			return
		}
		if res := in0.start(ctx); !res.ok() {
			r.Bucket("maxsize_start_failed", 1)
			return
		}
		w.allDown()
	}
	conf.ListMaxSize = small
	if fileSource {
		// rule lists must still fit: give them their own, normal, limit by
		// keeping them out of the picture (they are downloaded and rejected as
		// oversized, which leaves them absent - a clean state)
	}
	in, err := newInstance(ru.t, conf)
	if err != nil {
		r.Inconclusive("constructing the storage failed: " + err.Error())
		return
	}
	res := in.start(ctx)
	r.Bucket("maxsize_cases/"+key, 1)
	o := in.observe(ctx)
	post, unclean := versionsOf(o)
	wit := map[string]any{"case": key, "list_max_size": small, "list_size": len(listText(tHPAdult, 1)), "start_result": res,
		"served_after": post}
	check := hpTargets
	if !fileSource {
		check = append(append([]string{}, hpTargets...), ruleListTargets...)
	}
	for _, t := range check {
		failed := res.Errs[t] != "" || (targetClass(t) == "rulelist" && res.Errs["storage"] != "")
		isUnclean := false
		for _, u := range unclean {
			isUnclean = isUnclean || u == t
		}
		switch {
		case isUnclean:
			wm := map[string]any{"list": t, "hits_per_version": o.Lists[t].Hits, "probes_per_version": len(probeIdx)}
			for k, x := range wit {
				wm[k] = x
			}
			r.Violation(fmt.Sprintf("%s:serves-truncated-list:%s", key, targetClass(t)),
				"a list larger than the configured maximum, read from the cache file or a file source, is served truncated instead of complete or rejected", wm)
		case post[t] == 1:
			r.Bucket("maxsize_lists_complete", 1)
		case failed || post[t] == 0:
			r.Bucket("maxsize_lists_rejected_or_absent", 1)
		}
	}
	r.Eval("maxsize|"+key, true)
}

func (ru *runner) extraRounds() {
	r := ru.r
	idx := 0
	for rep := 0; rep < r.N(1, 4); rep++ {
		for _, k := range []string{tRLa, tRLb} {
			for _, kind := range []string{fTimeout, fStallCL} {
				dc := deadlineCase{Idx: idx, Stall: k, Kind: kind}
				idx++
				func() {
					defer func() {
						if p := recover(); p != nil {
							r.Violation("panic:deadline-refresh", fmt.Sprintf("panic: %v", p), map[string]any{"case": dc})
						}
					}()
					ru.runDeadline(dc)
				}()
			}
		}
	}
	for rep := 0; rep < r.N(2, 6); rep++ {
		for _, fs := range []bool{false, true} {
			func() {
				defer func() {
					if p := recover(); p != nil {
						r.Violation("panic:lowered-max-size", fmt.Sprintf("panic: %v", p), map[string]any{"file_source": fs})
					}
				}()
				ru.runLoweredMaxSize(idx, fs)
			}()
			idx++
		}
	}
}
