package c13

import (
	"context"
	"fmt"
	"os"
	"path/filepath"
	"sync"
	"time"
)

// Overlapping refreshes.  Default.Refresh is not serialised by the storage:
// the periodic worker and a refresh requested through the debug API can run at
// the same time.  One of two overlapping refreshes fails to download rule list
// X (and so carries the previous list over), the other one downloads X; the
// refresh that started first is held inside a later download (the server
// pauses the response) until the second one has run to completion.  Both
// orders are scheduled: the faulted refresh finishes last / finishes first.
// Afterwards every list must serve one complete version, the previous or the
// new one.

type overlapCase struct {
	Idx int `json:"idx"`
	// Order is "faulted-finishes-last" (the faulted refresh starts first, is
	// held, the good one runs to completion meanwhile) or
	// "faulted-finishes-first" (the good refresh starts first and is held).
	Order string `json:"order"`
	X     string `json:"faulted_list"`
	Kind  string `json:"fault_kind"`
	Hold  string `json:"held_in_download_of"`
}

const (
	ovFaultedLast  = "faulted-finishes-last"
	ovFaultedFirst = "faulted-finishes-first"
)

// fast fault kinds (the held refresh must not run into the client timeout)
var overlapFaults = []string{f404, fReset, fEmptyChunked, fTruncEarly, f500, fOverChunked, fResetMid, fTruncChunked}

func (ru *runner) overlapCases() []overlapCase {
	r := ru.r
	var out []overlapCase
	idx := 0
	reps := r.N(2, 8)
	for rep := 0; rep < reps; rep++ {
		for _, order := range []string{ovFaultedLast, ovFaultedFirst} {
			for _, x := range ruleListTargets {
				rng := r.Rand("overlap-gen", idx)
				out = append(out, overlapCase{
					Idx:   idx,
					Order: order,
					X:     x,
					Kind:  overlapFaults[rng.IntN(len(overlapFaults))],
					Hold:  []string{tSvc, tSSGen, tSSYT}[rng.IntN(3)],
				})
				idx++
			}
		}
	}
	return out
}

func (ru *runner) runOverlap(oc overlapCase) {
	r := ru.r
	rng := r.Rand("overlap-run", oc.Idx)
	w, err := newWorld(rng)
	if err != nil {
		r.Bucket("scenarios_skipped_no_port", 1)
		return
	}
	defer w.close()
	dir := filepath.Join(ru.scratch, fmt.Sprintf("o%05d", oc.Idx), "cache")
	if err = os.MkdirAll(dir, 0o755); err != nil {
		r.Inconclusive("mkdir: " + err.Error())
		return
	}
	defer os.RemoveAll(filepath.Dir(dir))
	// a generous client timeout: the held refresh waits for a whole other one
	conf := instConf{Dir: dir, URLs: w.urls, TimeoutMs: 15000, VMax: 3}
	ctx := context.Background()
	wit := map[string]any{"case": oc}
	cp := func(extra map[string]any) map[string]any {
		m := map[string]any{}
		for k, v := range wit {
			m[k] = v
		}
		for k, v := range extra {
			m[k] = v
		}
		return m
	}

	// round 0: start-up, version 1 of everything
	if err = w.setRound(1, nil, rng); err != nil {
		r.Bucket("scenarios_aborted_relisten", 1)
		return
	}
	in, err := newInstance(ru.t, conf)
	if err != nil {
		r.Inconclusive("constructing the storage failed: " + err.Error())
		return
	}
	if res := in.start(ctx); !res.ok() {
		r.Bucket("overlap_start_failed", 1)
		return
	}
	preObs := in.observe(ctx)
	pre, _ := versionsOf(preObs)
	wit["served_before"] = pre

	// round 1: both refreshes are offered version 2; request n of a target is
	// made by the refresh that started first (n = 0) or second (n = 1)
	const v = 2
	f := &faultSpec{Kind: oc.Kind, Target: oc.X}
	faultN := 0
	if oc.Order == ovFaultedFirst {
		faultN = 1
	}
	gate := make(chan gateEvt, 4)
	release := make(chan struct{})
	for _, t := range allTargets {
		t := t
		ok, _ := w.behaviourFor(t, v, nil, rng.IntN(2) == 0)
		w.legit.add(t, v, ok.Body)
		bad := ok
		if t == oc.X {
			var legit bool
			bad, legit = w.behaviourFor(t, v, f, false)
			if !legit && len(bad.Body) > 0 {
				if w.faultBodies[t] == nil {
					w.faultBodies[t] = map[string][]byte{}
				}
				w.faultBodies[t][fmt.Sprintf("%s@v%d", f.Kind, v)] = bad.Body
			}
		}
		srv := w.srv[t]
		srv.mu.Lock()
		srv.gateCh, srv.releaseCh = gate, release
		srv.mu.Unlock()
		srv.setScript(func(n int) behaviour {
			switch {
			case t == oc.X && n == faultN:
				return bad
			case t == oc.Hold && n == 0:
				p := ok
				p.Kind = bPause
				return p
			}
			return ok
		})
	}

	var err1, err2 error
	done1 := make(chan struct{})
	var once sync.Once
	rel := func() { once.Do(func() { close(release) }) }
	defer rel()
	go func() {
		err1 = in.st.Refresh(ctx)
		close(done1)
	}()
	reached := false
	select {
	case <-gate:
		reached = true
	case <-done1:
	case <-time.After(holdMax / 2):
	}
	firstStillRunning := false
	if reached {
		// the first refresh is parked inside a download; the second one runs
		// to completion meanwhile
		err2 = in.st.Refresh(ctx)
		select {
		case <-done1:
		default:
			firstStillRunning = true
		}
	}
	rel()
	select {
	case <-done1:
	case <-time.After(2 * holdMax):
		r.Inconclusive("overlap: the held refresh did not finish")
		return
	}
	collected := in.errs.take()
	realized := reached && firstStillRunning && err1 == nil && err2 == nil
	wit["schedule"] = map[string]any{
		"first_refresh_parked": reached, "second_finished_while_first_parked": firstStillRunning,
		"first_err": fmt.Sprint(err1), "second_err": fmt.Sprint(err2), "collected": collected, "realized": realized,
	}
	r.Bucket("overlap_cases", 1)
	if realized {
		r.Bucket("overlap_schedules_realized", 1)
		r.Bucket("overlap_schedules_realized/"+oc.Order, 1)
	} else {
		r.Bucket("overlap_not_realized", 1)
	}

	// afterwards: one complete version everywhere, the previous or the new one
	o := in.observe(ctx)
	post, unclean := versionsOf(o)
	wit["served_after"] = post
	if len(o.Errs) > 0 {
		r.Violation("overlap:filtering-error", "filtering failed after overlapping refreshes", cp(map[string]any{"errors": o.Errs}))
	}
	for _, t := range unclean {
		r.Violation(fmt.Sprintf("overlap:serves-incomplete-version:%s:%s", targetClass(t), oc.Order),
			"after overlapping refreshes a list serves something that is not one complete version",
			cp(map[string]any{"list": t, "hits_per_version": o.Lists[t].Hits}))
	}
	for _, t := range ruleListTargets {
		if len(o.Foreign[t]) > 0 {
			r.Violation("overlap:list-serves-another-lists-content:"+oc.Order, "after overlapping refreshes a rule list filters hosts that only another list contains",
				cp(map[string]any{"list": t, "serves_content_of": o.Foreign[t]}))
		}
	}
	for _, t := range servingLists {
		p, q := pre[t], post[t]
		if p < 0 || q < 0 || q == p || q == v {
			if q == v && p != v {
				r.Bucket("lists_advanced", 1)
			}
			continue
		}
		role := "other-list"
		if t == oc.X {
			role = "faulted-list"
		}
		what := "wrong-version"
		if q == 0 {
			what = "dropped"
		}
		r.Violation(fmt.Sprintf("overlap:%s-%s:%s:%s", role, what, targetClass(t), oc.Order),
			"after two overlapping refreshes (one of which failed to download a list) a list serves neither its previous nor its new complete version",
			cp(map[string]any{"list": t, "served_before": p, "served_after": q, "new_version": v, "has_list_id": o.Has}))
	}
	if !intsEq(o.Marks, preObs.Marks) && !intsEq(o.Marks, []int{v}) {
		r.Violation("overlap:index-neither-previous-nor-new:"+oc.Order, "after overlapping refreshes the applied index is neither the previous nor the new one",
			cp(map[string]any{"marks_before": preObs.Marks, "marks_after": o.Marks}))
	}
	ru.checkDisk(w, dir, f, func() map[string]any { return cp(nil) })

	r.Eval(fmt.Sprintf("overlap|%s|%s|%s|%s", oc.Order, oc.X, oc.Kind, oc.Hold), realized)
	if oc.Idx == 0 {
		r.Sample(map[string]any{"overlap_case": oc, "schedule": wit["schedule"], "served_before": pre, "served_after": post})
	}
}

func (ru *runner) overlapRounds() {
	r := ru.r
	cases := ru.overlapCases()
	r.Extra("overlap_cases", len(cases))
	ch := make(chan overlapCase)
	var wg sync.WaitGroup
	for i := 0; i < 6; i++ {
		wg.Add(1)
		go func() {
			defer wg.Done()
			for oc := range ch {
				func() {
					defer func() {
						if p := recover(); p != nil {
							r.Violation("panic:overlapping-refreshes", fmt.Sprintf("panic during overlapping refreshes: %v", p), map[string]any{"case": oc})
						}
					}()
					ru.runOverlap(oc)
				}()
			}
		}()
	}
	for _, oc := range cases {
		ch <- oc
	}
	close(ch)
	wg.Wait()
}
