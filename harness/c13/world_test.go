package c13

import (
	"bytes"
	"context"
	"encoding/json"
	"fmt"
	"io"
	"log/slog"
	"net/netip"
	"net/url"
	"os"
	"path/filepath"
	"sort"
	"strings"
	"sync"
	"testing"
	"time"

	"github.com/AdguardTeam/AdGuardDNS/internal/agdcache"
	"github.com/AdguardTeam/AdGuardDNS/internal/agdtest"
	"github.com/AdguardTeam/AdGuardDNS/internal/agdtime"
	"github.com/AdguardTeam/AdGuardDNS/internal/dnsmsg"
	"github.com/AdguardTeam/AdGuardDNS/internal/filter"
	"github.com/AdguardTeam/AdGuardDNS/internal/filter/filterstorage"
	"github.com/AdguardTeam/AdGuardDNS/internal/filter/hashprefix"
	"github.com/c2h5oh/datasize"
	"github.com/miekg/dns"
)

// Download targets.  Every target has its own server and its own cache file.
const (
	tIdx      = "idx"
	tMark     = "mark"
	tRLa      = "rl_a"
	tRLb      = "rl_b"
	tRLc      = "rl_c"
	tSvc      = "svc"
	tSSGen    = "ss_gen"
	tSSYT     = "ss_yt"
	tHPAdult  = "hp_adult"
	tHPDanger = "hp_danger"
	tHPNewReg = "hp_newreg"
)

// allTargets in the order the code under test downloads them in one round
// (index, rule lists sorted by key - "idxmark_vN" sorts before "rl_*" -,
// services, safe search; the hash-prefix filters are refreshed afterwards).
var allTargets = []string{tIdx, tMark, tRLa, tRLb, tRLc, tSvc, tSSGen, tSSYT, tHPAdult, tHPDanger, tHPNewReg}

// servingLists are the targets whose content is observable through verdicts.
var servingLists = []string{tRLa, tRLb, tRLc, tSvc, tSSGen, tSSYT, tHPAdult, tHPDanger, tHPNewReg}

var ruleListTargets = []string{tRLa, tRLb, tRLc}
var hpTargets = []string{tHPAdult, tHPDanger, tHPNewReg}

func targetClass(t string) string {
	switch t {
	case tIdx:
		return "index"
	case tMark, tRLa, tRLb, tRLc:
		return "rulelist"
	case tSvc:
		return "services"
	case tSSGen, tSSYT:
		return "safesearch"
	default:
		return "hashprefix"
	}
}

var hpID = map[string]filter.ID{
	tHPAdult:  filter.IDAdultBlocking,
	tHPDanger: filter.IDSafeBrowsing,
	tHPNewReg: filter.IDNewRegDomains,
}

const markPrefix = "idxmark_v"

// cacheFileOf returns the cache file name of a target (the mark list has one
// file per index version: see targetOfFile).
func cacheFileOf(t string) string {
	switch t {
	case tIdx:
		return "filters.json"
	case tSvc:
		return "services.json"
	case tSSGen:
		return string(filter.IDGeneralSafeSearch)
	case tSSYT:
		return string(filter.IDYoutubeSafeSearch)
	case tHPAdult, tHPDanger, tHPNewReg:
		return string(hpID[t])
	default:
		return t
	}
}

func targetOfFile(name string) (string, bool) {
	if strings.HasPrefix(name, markPrefix) {
		return tMark, true
	}
	for _, t := range allTargets {
		if t != tMark && cacheFileOf(t) == name {
			return t, true
		}
	}
	return "", false
}

// ---- content -------------------------------------------------------------

// nLines is the number of entries of every list version; the probes look at
// the first, the middle and the last one, so a version is recognised as
// complete only if its head and its tail are both applied.
const nLines = 96

const svcOne, svcTwo = "svc_one", "svc_two"

func dash(s string) string { return strings.ReplaceAll(s, "_", "-") }

// hostOf is the i-th host that version v of list t (and only it) filters.
func hostOf(t string, v, i int) string {
	return fmt.Sprintf("%s-v%d-n%d.example", dash(t), v, i)
}

var probeIdx = []int{0, nLines / 2, nLines - 1}

// listText is the complete text of version v of a serving list or of the
// static mark list (v ignored).
func listText(t string, v int) []byte {
	var b bytes.Buffer
	switch t {
	case tMark:
		b.WriteString("! static list that every index version refers to under its own id\n||mark-static.example^\n")
	case tRLa, tRLb, tRLc:
		fmt.Fprintf(&b, "! %s version %d\n", t, v)
		for i := 0; i < nLines; i++ {
			fmt.Fprintf(&b, "||%s^\n", hostOf(t, v, i))
		}
	case tSSGen, tSSYT:
		fmt.Fprintf(&b, "! %s version %d\n", t, v)
		for i := 0; i < nLines; i++ {
			fmt.Fprintf(&b, "|%s^$dnsrewrite=NOERROR;CNAME;safe-%s.example\n", hostOf(t, v, i), dash(t))
		}
	case tHPAdult, tHPDanger, tHPNewReg:
		fmt.Fprintf(&b, "# %s version %d\n", t, v)
		for i := 0; i < nLines; i++ {
			fmt.Fprintf(&b, "%s\n", hostOf(t, v, i))
		}
	case tSvc:
		return svcText(v, false)
	default:
		panic("listText: " + t)
	}
	return b.Bytes()
}

type svcEntry struct {
	ID    string   `json:"id"`
	Name  string   `json:"name"`
	Rules []string `json:"rules"`
}

// svcText is version v of the blocked-service index: two services that share
// the probe hosts between them (even entries in one, odd in the other).
func svcText(v int, withInvalidID bool) []byte {
	one := svcEntry{ID: svcOne, Name: "One"}
	two := svcEntry{ID: svcTwo, Name: "Two"}
	for i := 0; i < nLines; i++ {
		rule := "||" + hostOf(tSvc, v, i) + "^"
		if i%2 == 0 {
			one.Rules = append(one.Rules, rule)
		} else {
			two.Rules = append(two.Rules, rule)
		}
	}
	list := []svcEntry{one, two}
	if withInvalidID {
		list = []svcEntry{one, {ID: "bad id/with slash", Name: "Bad", Rules: []string{"||bad-svc.example^"}}, two}
	}
	b, _ := json.MarshalIndent(map[string]any{"blocked_services": list}, "", " ")
	return append(b, '\n')
}

type idxEntry struct {
	Key string  `json:"filterKey"`
	URL *string `json:"downloadUrl,omitempty"`
}

// Index variants ("invalid index entries").
const (
	ixPlain     = ""
	ixBadKey    = "idx-extra-bad-key"     // an additional entry whose key is not a valid id
	ixEmptyURL  = "idx-extra-empty-url"   // an additional entry (unknown id) with an empty URL
	ixNoURL     = "idx-extra-no-url"      // an additional entry (unknown id) without downloadUrl
	ixNonHTTP   = "idx-extra-non-http"    // an additional entry (unknown id) with an ftp URL
	ixBadURL    = "idx-extra-bad-url"     // an additional entry (unknown id) with an unparsable URL
	ixDupID     = "idx-extra-duplicate"   // rl_b listed twice (same URL)
	ixNullEntry = "idx-extra-null"        // a JSON null among the entries
	ixKnownURL  = "idx-known-empty-url"   // rl_b's own entry has an empty URL
	ixKnownFTP  = "idx-known-non-http"    // rl_b's own entry has an ftp URL
	ixManyBad   = "idx-extra-many"        // all of the additional invalid entries at once
	ixWrongType = "idx-extra-wrong-shape" // entries of a different JSON shape (no known fields)

	// Duplicate keys: rl_b is listed twice, once with an unusable URL and once
	// with a valid one that points to the new content, in either order.  The
	// valid entry must be applied.
	ixDupInvValEmpty = "idx-dup-invalid-then-valid-empty-url"
	ixDupInvValFTP   = "idx-dup-invalid-then-valid-non-http"
	ixDupInvValBad   = "idx-dup-invalid-then-valid-unparsable"
	ixDupValInvEmpty = "idx-dup-valid-then-invalid-empty-url"
	ixDupValInvFTP   = "idx-dup-valid-then-invalid-non-http"
	ixDupValInvBad   = "idx-dup-valid-then-invalid-unparsable"
	// Control: two valid entries for rl_b, the second pointing elsewhere (the
	// static mark list).  The code documents that the first entry is used and
	// the second reported as duplicated.
	ixDupValValOther = "idx-dup-valid-then-valid-other-url"
)

// Absent members: an item lacks the downloadUrl member (not: has an empty
// one) or the filterKey member, and the order / length of the index differs
// from the plain index of the previous round (sorted: mark, rl_a, rl_b, rl_c),
// so that the item sits at a position another list held before.  An item
// without downloadUrl is an invalid entry with a valid id: rl_b keeps its
// previous version.  An item without filterKey names no list at all.
const (
	ixAbsURLFirst   = "idx-known-absent-url-permuted-first"  // rl_b at the position the mark list held
	ixAbsURLSecond  = "idx-known-absent-url-permuted-second" // rl_b at the position rl_a held
	ixAbsURLShort   = "idx-known-absent-url-shortened"       // three items: rl_c is not listed any more
	ixAbsURLLong    = "idx-known-absent-url-lengthened"      // five items: one more valid list in front
	ixAbsKeyFirst   = "idx-extra-absent-key-permuted-first"  // an additional item without filterKey in front
	ixAbsKeySecond  = "idx-extra-absent-key-permuted-second" // ... at the position rl_a held
	markGhostListID = markPrefix + "ghost"
)

var idxAbsentKinds = []string{ixAbsURLFirst, ixAbsURLSecond, ixAbsURLShort, ixAbsURLLong, ixAbsKeyFirst, ixAbsKeySecond}

func isIdxAbsent(k string) bool { return strings.Contains(k, "-absent-") }

// idxRemoves names the rule list that an index variant legitimately does not
// list any more ("" = none).
func idxRemoves(k string) string {
	if k == ixAbsURLShort {
		return tRLc
	}
	return ""
}

var idxDupKinds = []string{ixDupInvValEmpty, ixDupInvValFTP, ixDupInvValBad, ixDupValInvEmpty, ixDupValInvFTP, ixDupValInvBad, ixDupValValOther}

func isIdxDup(k string) bool { return strings.HasPrefix(k, "idx-dup-") }

var idxExtraKinds = []string{ixBadKey, ixEmptyURL, ixNoURL, ixNonHTTP, ixBadURL, ixDupID, ixNullEntry, ixManyBad, ixWrongType}
var idxKnownKinds = []string{ixKnownURL, ixKnownFTP}

func sp(s string) *string { return &s }

// indexText is version v of the rule-list index: the three rule lists plus one
// entry "idxmark_v<v>" that reveals which index version is applied.
func indexText(urls map[string]string, v int, variant string) []byte {
	var ents []any
	add := func(k string, u *string) { ents = append(ents, idxEntry{Key: k, URL: u}) }
	finish := func() []byte {
		b, _ := json.MarshalIndent(map[string]any{"filters": ents, "comment": fmt.Sprintf("index version %d %s", v, variant)}, "", " ")
		return append(b, '\n')
	}
	if isIdxAbsent(variant) {
		mark := fmt.Sprintf("%s%d", markPrefix, v)
		val := func(t string) { add(t, sp(urls[t])) }
		noKey := func(u string) { ents = append(ents, map[string]any{"downloadUrl": u}) }
		switch variant {
		case ixAbsURLFirst:
			add(tRLb, nil)
			val(tRLa)
			val(tRLc)
			add(mark, sp(urls[tMark]))
		case ixAbsURLSecond:
			add(mark, sp(urls[tMark]))
			add(tRLb, nil)
			val(tRLc)
			val(tRLa)
		case ixAbsURLShort:
			val(tRLa)
			add(tRLb, nil)
			add(mark, sp(urls[tMark]))
		case ixAbsURLLong:
			add(markGhostListID, sp(urls[tMark]))
			add(mark, sp(urls[tMark]))
			val(tRLc)
			add(tRLb, nil)
			val(tRLa)
		case ixAbsKeyFirst:
			noKey(urls[tRLc])
			val(tRLa)
			val(tRLb)
			val(tRLc)
			add(mark, sp(urls[tMark]))
		case ixAbsKeySecond:
			add(mark, sp(urls[tMark]))
			noKey(urls[tRLc])
			val(tRLa)
			val(tRLb)
			val(tRLc)
		}
		return finish()
	}
	extra := func(kind string) {
		switch kind {
		case ixBadKey:
			add("bad key/with slash and space", sp(urls[tMark]))
			add("", sp(urls[tMark]))
			add(strings.Repeat("k", 200), sp(urls[tMark]))
		case ixEmptyURL:
			add("ghost_empty_url", sp(""))
		case ixNoURL:
			add("ghost_no_url", nil)
		case ixNonHTTP:
			add("ghost_ftp", sp("ftp://127.0.0.1/ghost"))
			add("ghost_file", sp("file:///etc/passwd"))
		case ixBadURL:
			add("ghost_bad_url", sp("http://[::1"))
			add("ghost_rel_url", sp("/just/a/path"))
		case ixDupID:
			add(tRLb, sp(urls[tRLb]))
		case ixNullEntry:
			ents = append(ents, nil)
		case ixWrongType:
			ents = append(ents, map[string]any{"id": 7, "url": true}, map[string]any{})
		}
	}
	add(tRLc, sp(urls[tRLc]))
	if variant == ixManyBad {
		for _, k := range idxExtraKinds {
			if k != ixManyBad {
				extra(k)
			}
		}
	} else {
		extra(variant)
	}
	badURL := map[string]string{
		ixDupInvValEmpty: "", ixDupValInvEmpty: "",
		ixDupInvValFTP: "ftp://127.0.0.1/rl_b", ixDupValInvFTP: "ftp://127.0.0.1/rl_b",
		ixDupInvValBad: "http://[::1", ixDupValInvBad: "http://[::1",
	}
	switch variant {
	case ixKnownURL:
		add(tRLb, sp(""))
	case ixKnownFTP:
		add(tRLb, sp("ftp://127.0.0.1/rl_b"))
	case ixDupInvValEmpty, ixDupInvValFTP, ixDupInvValBad:
		add(tRLb, sp(badURL[variant]))
		add(tRLb, sp(urls[tRLb]))
	case ixDupValInvEmpty, ixDupValInvFTP, ixDupValInvBad:
		add(tRLb, sp(urls[tRLb]))
		add(tRLb, sp(badURL[variant]))
	case ixDupValValOther:
		add(tRLb, sp(urls[tRLb]))
		add(tRLb, sp(urls[tMark]))
	default:
		add(tRLb, sp(urls[tRLb]))
	}
	add(fmt.Sprintf("%s%d", markPrefix, v), sp(urls[tMark]))
	add(tRLa, sp(urls[tRLa]))
	return finish()
}

// ---- instance ("one process lifetime") -------------------------------------

type errSink struct {
	mu   sync.Mutex
	errs []string
}

func (e *errSink) Collect(_ context.Context, err error) {
	e.mu.Lock()
	e.errs = append(e.errs, err.Error())
	e.mu.Unlock()
}

func (e *errSink) take() []string {
	e.mu.Lock()
	defer e.mu.Unlock()
	l := e.errs
	e.errs = nil
	return l
}

// instConf is everything needed to build the storage and the hash-prefix
// filters over one cache directory (JSON: it is handed to child processes).
type instConf struct {
	Dir       string            `json:"dir"`
	URLs      map[string]string `json:"urls"`
	TimeoutMs int               `json:"timeout_ms"`
	VMax      int               `json:"vmax"`
	// NoSvcSS disables the blocked-service and the safe-search filters.
	NoSvcSS bool `json:"no_svc_ss,omitempty"`
	// ListMaxSize, if not 0, replaces the maximum size of rule lists and hash
	// lists (not of the indexes and safe-search lists).
	ListMaxSize int `json:"list_max_size,omitempty"`
}

const maxSize = 96 * 1024

type instance struct {
	conf instConf
	errs *errSink
	st   *filterstorage.Default
	hp   map[string]*hashprefix.Filter
	msgs *dnsmsg.Constructor
}

var discard = slog.New(slog.NewTextHandler(io.Discard, nil))

func mustURL(s string) *url.URL {
	u, err := url.Parse(s)
	if err != nil {
		panic(err)
	}
	return u
}

// staleness is tiny so that every Refresh really downloads.
const staleness = time.Nanosecond

func newInstance(tb testing.TB, c instConf) (*instance, error) {
	in := &instance{conf: c, errs: &errSink{}, hp: map[string]*hashprefix.Filter{}, msgs: agdtest.NewConstructor(tb)}
	to := time.Duration(c.TimeoutMs) * time.Millisecond
	listMax := datasize.ByteSize(maxSize)
	if c.ListMaxSize > 0 {
		listMax = datasize.ByteSize(c.ListMaxSize)
	}
	for _, t := range hpTargets {
		strg, err := hashprefix.NewStorage("")
		if err != nil {
			return nil, err
		}
		f, err := hashprefix.NewFilter(&hashprefix.FilterConfig{
			Logger:          discard,
			Cloner:          agdtest.NewCloner(),
			CacheManager:    agdcache.EmptyManager{},
			Hashes:          strg,
			URL:             mustURL(c.URLs[t]),
			ErrColl:         in.errs,
			Metrics:         filter.EmptyMetrics{},
			ID:              hpID[t],
			CachePath:       filepath.Join(c.Dir, cacheFileOf(t)),
			ReplacementHost: "repl-" + dash(t) + ".example",
			Staleness:       staleness,
			CacheTTL:        time.Hour,
			RefreshTimeout:  to,
			CacheCount:      1000,
			MaxSize:         listMax,
		})
		if err != nil {
			return nil, err
		}
		in.hp[t] = f
	}
	ss := func(t string, id filter.ID) *filterstorage.ConfigSafeSearch {
		return &filterstorage.ConfigSafeSearch{
			URL: mustURL(c.URLs[t]), ID: id, MaxSize: maxSize, ResultCacheTTL: time.Hour,
			RefreshTimeout: to, Staleness: staleness, ResultCacheCount: 1000, Enabled: !c.NoSvcSS,
		}
	}
	st, err := filterstorage.New(&filterstorage.Config{
		BaseLogger: discard,
		Logger:     discard,
		BlockedServices: &filterstorage.ConfigBlockedServices{
			IndexURL: mustURL(c.URLs[tSvc]), IndexMaxSize: maxSize, IndexRefreshTimeout: to,
			IndexStaleness: staleness, ResultCacheCount: 1000, ResultCacheEnabled: true, Enabled: !c.NoSvcSS,
		},
		Custom: &filterstorage.ConfigCustom{CacheCount: 10},
		HashPrefix: &filterstorage.ConfigHashPrefix{
			Adult: in.hp[tHPAdult], Dangerous: in.hp[tHPDanger], NewlyRegistered: in.hp[tHPNewReg],
		},
		RuleLists: &filterstorage.ConfigRuleLists{
			IndexURL: mustURL(c.URLs[tIdx]), IndexMaxSize: maxSize, MaxSize: listMax,
			IndexRefreshTimeout: to, IndexStaleness: staleness, RefreshTimeout: to, Staleness: staleness,
			ResultCacheCount: 1000, ResultCacheEnabled: true,
		},
		SafeSearchGeneral: ss(tSSGen, filter.IDGeneralSafeSearch),
		SafeSearchYouTube: ss(tSSYT, filter.IDYoutubeSafeSearch),
		CacheManager:      agdcache.EmptyManager{},
		Clock:             agdtime.SystemClock{},
		ErrColl:           in.errs,
		Metrics:           filter.EmptyMetrics{},
		CacheDir:          c.Dir,
	})
	if err != nil {
		return nil, err
	}
	in.st = st
	return in, nil
}

// refreshRes is what one start-up or one refresh round returned.
type refreshRes struct {
	// Errs maps "storage" / hash-prefix target to the error returned.
	Errs map[string]string `json:"errs"`
	// Collected are the errors handed to the error collector meanwhile.
	Collected []string `json:"collected"`
}

func (rr refreshRes) ok() bool { return len(rr.Errs) == 0 }

// start is the start-up sequence of cmd/builder.go: initial refresh of the
// hash-prefix filters, then of the storage.  Any error aborts the start-up.
func (in *instance) start(ctx context.Context) refreshRes {
	rr := refreshRes{Errs: map[string]string{}}
	for _, t := range hpTargets {
		if err := in.hp[t].RefreshInitial(ctx); err != nil {
			rr.Errs[t] = err.Error()
		}
	}
	if err := in.st.RefreshInitial(ctx); err != nil {
		rr.Errs["storage"] = err.Error()
	}
	rr.Collected = in.errs.take()
	return rr
}

// refresh is one periodic refresh of everything.
func (in *instance) refresh(ctx context.Context) refreshRes {
	rr := refreshRes{Errs: map[string]string{}}
	if err := in.st.Refresh(ctx); err != nil {
		rr.Errs["storage"] = err.Error()
	}
	for _, t := range hpTargets {
		if err := in.hp[t].Refresh(ctx); err != nil {
			rr.Errs[t] = err.Error()
		}
	}
	rr.Collected = in.errs.take()
	return rr
}

// ---- observation -------------------------------------------------------------

// listObs is what the verdicts reveal about one list: for every version any of
// whose probe hosts is filtered, how many of the probe hosts are.
type listObs struct {
	Hits map[int]int `json:"hits,omitempty"`
}

// version returns the single complete version served (0 = the list filters
// nothing) and whether the observation is such a clean state.
func (o listObs) version() (v int, clean bool) {
	if len(o.Hits) == 0 {
		return 0, true
	}
	if len(o.Hits) > 1 {
		return -1, false
	}
	for ver, n := range o.Hits {
		if n == len(probeIdx) {
			return ver, true
		}
	}
	return -1, false
}

type observation struct {
	Lists map[string]listObs `json:"lists"`
	// Marks are the index versions whose mark list the storage knows.
	Marks []int `json:"marks"`
	// Has tells which rule lists the storage knows.
	Has map[string]bool `json:"has"`
	// MarkStatic tells whether the static mark list content is applied.
	MarkStatic bool `json:"mark_static"`
	// Foreign lists, per rule list, the other lists ("<list>@v<version>")
	// whose content it serves when it alone is enabled.
	Foreign map[string][]string `json:"foreign,omitempty"`
	// Errs are filtering errors (never expected).
	Errs []string `json:"errs,omitempty"`
}

func (in *instance) observe(ctx context.Context) observation {
	o := observation{Lists: map[string]listObs{}, Has: map[string]bool{}}
	var ids []filter.ID
	for _, t := range ruleListTargets {
		ids = append(ids, filter.ID(t))
		o.Has[t] = in.st.HasListID(filter.ID(t))
	}
	for v := 1; v <= in.conf.VMax; v++ {
		id := filter.ID(fmt.Sprintf("%s%d", markPrefix, v))
		if in.st.HasListID(id) {
			o.Marks = append(o.Marks, v)
			ids = append(ids, id)
		}
	}
	conf := &filter.ConfigGroup{
		Parental: &filter.ConfigParental{
			Enabled: true, AdultBlockingEnabled: true, SafeSearchGeneralEnabled: true, SafeSearchYouTubeEnabled: true,
			BlockedServices: []filter.BlockedServiceID{svcOne, svcTwo},
		},
		RuleList:     &filter.ConfigRuleList{IDs: ids, Enabled: true},
		SafeBrowsing: &filter.ConfigSafeBrowsing{Enabled: true, DangerousDomainsEnabled: true, NewlyRegisteredDomainsEnabled: true},
	}
	f := in.st.ForConfig(ctx, conf)
	filteredBy := func(f filter.Interface, host string) bool {
		req := &filter.Request{
			DNS: &dns.Msg{
				MsgHdr:   dns.MsgHdr{Id: 1, RecursionDesired: true},
				Question: []dns.Question{{Name: dns.Fqdn(host), Qtype: dns.TypeA, Qclass: dns.ClassINET}},
			},
			Messages: in.msgs,
			RemoteIP: netip.MustParseAddr("192.0.2.1"),
			Host:     host,
			QType:    dns.TypeA,
			QClass:   dns.ClassINET,
		}
		res, err := f.FilterRequest(ctx, req)
		if err != nil {
			o.Errs = append(o.Errs, host+": "+err.Error())
			return false
		}
		switch res.(type) {
		case *filter.ResultBlocked, *filter.ResultModifiedRequest, *filter.ResultModifiedResponse:
			return true
		}
		return false
	}
	filtered := func(host string) bool { return filteredBy(f, host) }
	// a rule list enabled alone must not filter hosts of the other rule lists
	for _, t := range ruleListTargets {
		if !o.Has[t] {
			continue
		}
		one := in.st.ForConfig(ctx, &filter.ConfigGroup{
			Parental:     &filter.ConfigParental{},
			RuleList:     &filter.ConfigRuleList{IDs: []filter.ID{filter.ID(t)}, Enabled: true},
			SafeBrowsing: &filter.ConfigSafeBrowsing{},
		})
		for _, x := range ruleListTargets {
			if x == t {
				continue
			}
			for v := 1; v <= in.conf.VMax; v++ {
				if filteredBy(one, hostOf(x, v, 0)) {
					if o.Foreign == nil {
						o.Foreign = map[string][]string{}
					}
					o.Foreign[t] = append(o.Foreign[t], fmt.Sprintf("%s@v%d", x, v))
				}
			}
		}
		if filteredBy(one, "mark-static.example") {
			if o.Foreign == nil {
				o.Foreign = map[string][]string{}
			}
			o.Foreign[t] = append(o.Foreign[t], tMark)
		}
	}
	for _, t := range servingLists {
		lo := listObs{}
		for v := 1; v <= in.conf.VMax; v++ {
			for _, i := range probeIdx {
				if filtered(hostOf(t, v, i)) {
					if lo.Hits == nil {
						lo.Hits = map[int]int{}
					}
					lo.Hits[v]++
				}
			}
		}
		o.Lists[t] = lo
	}
	o.MarkStatic = filtered("mark-static.example")
	if filtered("never-listed.example") {
		o.Errs = append(o.Errs, "a host that no list contains is filtered")
	}
	return o
}

// ---- cache directory -----------------------------------------------------------

// diskState maps every regular, non-temporary file of the cache directory to
// its bytes.  Temporary files (renameio names them ".<base><random>") and
// directories are ignored.
func readDisk(dir string) (map[string][]byte, error) {
	des, err := os.ReadDir(dir)
	if err != nil {
		return nil, err
	}
	out := map[string][]byte{}
	for _, de := range des {
		if strings.HasPrefix(de.Name(), ".") || !de.Type().IsRegular() {
			continue
		}
		b, err := os.ReadFile(filepath.Join(dir, de.Name()))
		if err != nil {
			if os.IsNotExist(err) {
				continue
			}
			return nil, err
		}
		out[de.Name()] = b
	}
	return out, nil
}

// legitSet is, per target, the set of complete versions ever offered with a
// 200 response and a complete body.
type legitSet map[string]map[int][]byte

func (l legitSet) add(t string, v int, b []byte) {
	if l[t] == nil {
		l[t] = map[int][]byte{}
	}
	l[t][v] = b
}

// versionOf returns the version whose bytes b are (ok=false: none).
func (l legitSet) versionOf(t string, b []byte) (int, bool) {
	vs := make([]int, 0, len(l[t]))
	for v := range l[t] {
		vs = append(vs, v)
	}
	sort.Ints(vs)
	for _, v := range vs {
		if bytes.Equal(l[t][v], b) {
			return v, true
		}
	}
	return 0, false
}

func describeBytes(b []byte) map[string]any {
	head := b
	if len(head) > 120 {
		head = head[:120]
	}
	tail := b
	if len(tail) > 80 {
		tail = tail[len(tail)-80:]
	}
	return map[string]any{"len": len(b), "head": string(head), "tail": string(tail)}
}
