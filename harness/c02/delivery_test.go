package c02

// Delivery histories: the profiles (with their custom rules) reach the filter
// storage the way production delivers them - an in-process gRPC DNSService
// streams DNSProfile messages, the REAL backendpb.ProfileStorage converts them,
// the REAL profiledb.Default stores them (full synchronisation first, then an
// incremental or a second FULL one) and the stack looks the profiles up in that
// database.  The evaluator works from what the backend SENT LAST: after the
// custom rules of a profile change, the verdict must follow the new rules, by
// whichever kind of synchronisation they were delivered.

import (
	"context"
	"fmt"
	"math/rand/v2"
	"net"
	"net/netip"
	"net/url"
	"strconv"
	"sync"
	"sync/atomic"
	"time"

	"github.com/AdguardTeam/AdGuardDNS/internal/agd"
	"github.com/AdguardTeam/AdGuardDNS/internal/backendpb"
	"github.com/AdguardTeam/AdGuardDNS/internal/filter"
	"github.com/AdguardTeam/AdGuardDNS/internal/profiledb"
	"github.com/AdguardTeam/AdGuardDNS/verif/stack"
	"github.com/AdguardTeam/AdGuardDNS/verif/vkit"
	"github.com/AdguardTeam/golibs/netutil"
	"github.com/c2h5oh/datasize"
	"github.com/miekg/dns"
	"google.golang.org/grpc"
	"google.golang.org/grpc/metadata"
	"google.golang.org/protobuf/types/known/durationpb"
)

type deliveryBackend struct {
	backendpb.UnimplementedDNSServiceServer

	mu    sync.Mutex
	batch []*backendpb.DNSProfile
	full  []bool // per call: did the request ask for a full synchronisation (zero sync time)
	epoch int64
}

func (b *deliveryBackend) GetDNSProfiles(req *backendpb.DNSProfilesRequest, srv grpc.ServerStreamingServer[backendpb.DNSProfile]) error {
	b.mu.Lock()
	batch := b.batch
	b.epoch++
	ep := b.epoch
	b.full = append(b.full, req.GetSyncTime() == nil || req.GetSyncTime().AsTime().Year() <= 1)
	b.mu.Unlock()
	for _, p := range batch {
		if err := srv.Send(p); err != nil {
			return err
		}
	}
	srv.SetTrailer(metadata.Pairs("sync_time", strconv.FormatInt(time.Now().UnixMilli()+ep, 10)))
	return nil
}

func (b *deliveryBackend) set(batch []*backendpb.DNSProfile) {
	b.mu.Lock()
	b.batch = batch
	b.mu.Unlock()
}

func (b *deliveryBackend) lastWasFull() bool {
	b.mu.Lock()
	defer b.mu.Unlock()
	return len(b.full) > 0 && b.full[len(b.full)-1]
}

type countingErrColl struct {
	n    atomic.Int64
	mu   sync.Mutex
	last string
}

func (c *countingErrColl) Collect(_ context.Context, err error) {
	c.n.Add(1)
	c.mu.Lock()
	c.last = err.Error()
	c.mu.Unlock()
}

type delivery struct {
	be   *deliveryBackend
	strg *backendpb.ProfileStorage
	ec   *countingErrColl
	stop func()
}

func newDelivery() (*delivery, error) {
	l, err := net.Listen("tcp4", "127.0.0.1:0")
	if err != nil {
		return nil, err
	}
	d := &delivery{be: &deliveryBackend{}, ec: &countingErrColl{}}
	gs := grpc.NewServer()
	backendpb.RegisterDNSServiceServer(gs, d.be)
	go func() { _ = gs.Serve(l) }()
	d.stop = gs.Stop
	d.strg, err = backendpb.NewProfileStorage(&backendpb.ProfileStorageConfig{
		BindSet:              netutil.SliceSubnetSet{netip.MustParsePrefix("192.0.2.64/26")},
		ErrColl:              d.ec,
		Logger:               stack.Logger(),
		GRPCMetrics:          backendpb.EmptyGRPCMetrics{},
		Metrics:              backendpb.EmptyProfileDBMetrics{},
		Endpoint:             &url.URL{Scheme: "grpc", Host: l.Addr().String()},
		ResponseSizeEstimate: datasize.KB, MaxProfilesSize: 64 * datasize.MB,
	})
	if err != nil {
		gs.Stop()
		return nil, err
	}
	return d, nil
}

// toProto is what the backend sends for a configuration.
func toProto(c *cfg) *backendpb.DNSProfile {
	pb := &backendpb.DNSProfile{
		DnsId: c.ProfID, FilteringEnabled: c.ProfOn, QueryLogEnabled: true,
		SafeBrowsing: &backendpb.SafeBrowsingSettings{Enabled: c.SBOn, BlockDangerousDomains: c.Danger, BlockNrd: c.NewReg},
		Parental: &backendpb.ParentalSettings{Enabled: c.ParentOn, BlockAdult: c.Adult, GeneralSafeSearch: c.SSGen,
			YoutubeSafeSearch: c.SSYT, BlockedServices: append([]string{}, c.Services...)},
		RuleLists:           &backendpb.RuleListsSettings{Enabled: c.ListsOn, Ids: append([]string{}, c.ListIDs...)},
		FilteredResponseTtl: durationpb.New(time.Duration(c.TTL) * time.Second),
		Devices:             []*backendpb.DeviceSettings{{Id: c.DevID, Name: "device " + c.DevID, FilteringEnabled: c.DevOn}},
	}
	if c.CustomOn && c.Custom != nil {
		for _, ru := range c.Custom.Rules {
			pb.CustomRules = append(pb.CustomRules, ru.text())
		}
	}
	switch c.Mode.Shape {
	case "nullip":
		pb.BlockingMode = &backendpb.DNSProfile_BlockingModeNullIp{BlockingModeNullIp: &backendpb.BlockingModeNullIP{}}
	case "nxdomain":
		pb.BlockingMode = &backendpb.DNSProfile_BlockingModeNxdomain{BlockingModeNxdomain: &backendpb.BlockingModeNXDOMAIN{}}
	case "refused":
		pb.BlockingMode = &backendpb.DNSProfile_BlockingModeRefused{BlockingModeRefused: &backendpb.BlockingModeREFUSED{}}
	default:
		m := &backendpb.BlockingModeCustomIP{}
		if len(c.Mode.V4) > 0 {
			m.Ipv4, _ = c.Mode.V4[0].MarshalBinary()
		}
		if len(c.Mode.V6) > 0 {
			m.Ipv6, _ = c.Mode.V6[0].MarshalBinary()
		}
		pb.BlockingMode = &backendpb.DNSProfile_BlockingModeCustomIp{BlockingModeCustomIp: m}
	}
	return pb
}

// changedRules is the user's next version of the custom rules: about half of
// the rules change their meaning, some disappear, some template rules appear
// with the opposite meaning.
func changedRules(rng *rand.Rand, w *world, v1 []rule) (v2 []rule) {
	flip := func(ru rule) rule {
		switch ru.Kind {
		case rkBlock, rkHosts:
			ru.Kind = rkAllow
		case rkAllow:
			ru.Kind = rkBlock
		default: // a rewrite becomes a plain block rule
			ru.Kind, ru.Val = rkBlock, ""
		}
		return ru
	}
	have := map[string]bool{}
	for _, ru := range v1 {
		have[ru.Name] = true
		switch x := rng.IntN(100); {
		case x < 55:
			v2 = append(v2, flip(ru))
		case x < 70:
			// removed
		default:
			v2 = append(v2, ru)
		}
	}
	for _, ru := range w.CustomTpl {
		if !have[ru.Name] && rng.IntN(2) == 0 {
			have[ru.Name] = true
			v2 = append(v2, ru)
		}
	}
	for _, name := range w.Names {
		if !have[name] && rng.IntN(100) < 8 {
			v2 = append(v2, noiseRule(rng, name, true, false))
		}
	}
	if len(v2) == 0 {
		v2 = append(v2, rule{Kind: rkBlock, Name: w.Names[0]})
	}
	return v2
}

// deliveryHistories runs, for one world, two arms of three profiles each:
// full sync -> probes -> the custom rules change -> delivered by an INCREMENTAL
// sync (arm "incr") or by a second FULL sync (arm "full") -> the same probes.
func (mo *monitor) deliveryHistories(dl *delivery, w *world, cfgs []*cfg, rng *rand.Rand) {
	r := mo.r
	for arm, armName := range []string{"incr", "full"} {
		// the profiles of this arm: clones of the world's profile configurations
		var ds []*cfg
		for k, c := range cfgs {
			if c.Anonymous || k%2 != arm {
				continue
			}
			d := *c
			d.ProfID, d.DevID = fmt.Sprintf("%c%dx%d", "ef"[arm], w.Idx, k), fmt.Sprintf("%c%dx%d", "gh"[arm], w.Idx, k)
			d.ProfOn, d.DevOn, d.CustomOn, d.Group = true, true, true, 0
			if len(d.Mode.V4) > 1 {
				d.Mode.V4 = d.Mode.V4[:1] // one address per family on the wire
			}
			if len(d.Mode.V6) > 1 {
				d.Mode.V6 = d.Mode.V6[:1]
			}
			cs := &source{ID: string(filter.IDCustom), Class: "custom"}
			if c.Custom != nil {
				cs.Rules = append(cs.Rules, c.Custom.Rules...)
			}
			for _, ru := range w.CustomTpl {
				if len(cs.Rules) < 6 && !hasName(cs.Rules, ru.Name) {
					cs.Rules = append(cs.Rules, ru)
				}
			}
			d.Custom = cs
			ds = append(ds, &d)
		}
		ivl := 24 * time.Hour
		if armName == "full" {
			ivl = time.Nanosecond // every synchronisation of this database is a full one
		}
		db, err := profiledb.New(&profiledb.Config{
			Logger: stack.Logger(), Storage: dl.strg, ErrColl: dl.ec, Metrics: profiledb.EmptyMetrics{},
			CacheFilePath: "none", FullSyncIvl: ivl, FullSyncRetryIvl: ivl, ResponseSizeEstimate: datasize.KB,
		})
		if err != nil {
			r.Inconclusive("delivery: profiledb.New: " + err.Error())
			return
		}
		sync := func(batch []*backendpb.DNSProfile, wantFull bool) bool {
			dl.be.set(batch)
			ctx, cancel := context.WithTimeout(context.Background(), 60*time.Second)
			defer cancel()
			if err := db.Refresh(ctx); err != nil {
				r.Inconclusive("delivery: synchronisation failed: " + err.Error())
				return false
			}
			if dl.be.lastWasFull() != wantFull {
				r.Bucket("delivery_sync_unexpected_kind", 1)
				r.Inconclusive(fmt.Sprintf("delivery: arm %s: synchronisation kind is not the intended one (want full=%v)", armName, wantFull))
				return false
			}
			// what the database now holds is what the stack and the storage get
			for _, d := range ds {
				prof, _, perr := db.ProfileByDeviceID(ctx, agd.DeviceID(d.DevID))
				if perr != nil {
					r.Inconclusive("delivery: delivered profile not found: " + perr.Error())
					return false
				}
				if rerr := d.realize(w); rerr != nil {
					r.Inconclusive("delivery: " + rerr.Error())
					return false
				}
				d.fconf = prof.FilterConfig
			}
			return true
		}
		batch := func() (out []*backendpb.DNSProfile) {
			for _, d := range ds {
				out = append(out, toProto(d))
			}
			return out
		}
		if !sync(batch(), true) {
			return
		}
		r.Bucket("delivery_sync_initial_full", 1)

		srv := stack.NewServer("dotd", agd.ProtoDoT, netip.MustParseAddrPort("192.0.2.1:853"), false)
		fg := &agd.FilteringGroup{ID: "fgd", FilterConfig: &filter.ConfigGroup{Parental: &filter.ConfigParental{},
			RuleList: &filter.ConfigRuleList{}, SafeBrowsing: &filter.ConfigSafeBrowsing{}}}
		grp := &agd.ServerGroup{DDR: stack.NewDDR(false), DeviceDomains: []string{"d.example"}, Name: "gd", FilteringGroup: fg.ID,
			Servers: []*agd.Server{srv}, ProfilesEnabled: true}
		st, err := stack.New(&stack.Options{ProfileDB: db, ServerGroups: []*agd.ServerGroup{grp},
			FilteringGroups: map[agd.FilteringGroupID]*agd.FilteringGroup{fg.ID: fg}, FilterStorage: w.storage,
			Upstream: upstreamFunc, Cloner: w.cloner, Messages: w.defMsgs})
		if err != nil {
			r.Inconclusive("delivery: stack construction failed: " + err.Error())
			return
		}

		// versions and probes
		type plan struct {
			d      *cfg
			v1, v2 []rule
			probes []probe
			ndisc  int
		}
		var plans []*plan
		for _, d := range ds {
			pl := &plan{d: d, v1: d.Custom.Rules}
			pl.v2 = changedRules(rng, w, pl.v1)
			m1, m2 := *d, *d
			m1.Custom = &source{ID: d.Custom.ID, Class: "custom", Rules: pl.v1}
			m2.Custom = &source{ID: d.Custom.ID, Class: "custom", Rules: pl.v2}
			var disc, rest []probe
			for _, base := range w.Names {
				host := base
				if rng.IntN(3) == 0 {
					host = "www." + base
				}
				qt := []uint16{dns.TypeA, dns.TypeA, dns.TypeAAAA, dns.TypeTXT, dns.TypeHTTPS}[rng.IntN(5)]
				x, _ := evalRequest(m1.view(w), host, qt)
				y, _ := evalRequest(m2.view(w), host, qt)
				p := probe{QName: dns.Fqdn(host), Host: host, QType: qt}
				if vkit.JSON(x) != vkit.JSON(y) {
					disc = append(disc, p)
				} else {
					rest = append(rest, p)
				}
			}
			rng.Shuffle(len(disc), func(i, j int) { disc[i], disc[j] = disc[j], disc[i] })
			rng.Shuffle(len(rest), func(i, j int) { rest[i], rest[j] = rest[j], rest[i] })
			if len(disc) > 8 {
				disc = disc[:8]
			}
			if len(rest) > 3 {
				rest = rest[:3]
			}
			pl.ndisc = len(disc)
			pl.probes = append(disc, rest...)
			plans = append(plans, pl)
		}
		run := func(phase string) {
			mo.keyPrefix = "delivered:" + phase + ":"
			defer func() { mo.keyPrefix = "" }()
			for _, pl := range plans {
				for pi, p := range pl.probes {
					mo.runProbe(w, pl.d, st, srv, grp, p, 3000+pi)
					r.Bucket("delivery_probes_"+phase, 1)
					if pi < pl.ndisc {
						r.Bucket("delivery_discriminating_probes_"+phase, 1)
					}
				}
			}
		}
		run("initial-full-sync")
		// the user changes the custom rules
		for _, pl := range plans {
			pl.d.Custom = &source{ID: pl.d.Custom.ID, Class: "custom", Rules: pl.v2}
		}
		if !sync(batch(), armName == "full") {
			return
		}
		if armName == "full" {
			r.Bucket("delivery_sync_update_by_full", 1)
			run("updated-by-full-sync")
		} else {
			r.Bucket("delivery_sync_update_by_incremental", 1)
			run("updated-by-incremental-sync")
		}
	}
	if n := dl.ec.n.Swap(0); n > 0 {
		r.Bucket("delivery_errcoll", n)
		dl.ec.mu.Lock()
		r.Extra("delivery_errcoll_example", dl.ec.last)
		dl.ec.mu.Unlock()
	}
}

func hasName(rules []rule, name string) bool {
	for _, ru := range rules {
		if ru.Name == name {
			return true
		}
	}
	return false
}
