package c02

// The rule grammar with a known meaning and the precedence evaluator.  The
// evaluator is written from the STATEMENT of property C02 (plus the documented
// meaning of the configuration switches and of the rule syntax), not from
// composite.go.

import (
	"net/netip"
	"sort"
	"strings"

	"github.com/miekg/dns"
)

// ---- grammar ----

type rkind int

const (
	rkBlock   rkind = iota // ||d^            [$dnstype=…]
	rkAllow                // @@||d^          [$dnstype=…]
	rkHosts                // 0.0.0.0 d       (exact name, every qtype)
	rkRwIP                 // ||d^$dnsrewrite=<ip>
	rkRwCNAME              // ||d^$dnsrewrite=<name>
	rkRwRcode              // ||d^$dnsrewrite=REFUSED|NXDOMAIN
)

var kindNames = map[rkind]string{rkBlock: "block", rkAllow: "allow", rkHosts: "hosts", rkRwIP: "rw-ip", rkRwCNAME: "rw-cname", rkRwRcode: "rw-rcode"}

type rule struct {
	Kind  rkind    `json:"-"`
	Name  string   `json:"-"`
	Types []uint16 `json:"-"` // $dnstype list (all permitted, or all negated when Neg)
	Neg   bool     `json:"-"`
	Val   string   `json:"-"`
	// $client modifier (block / allow rules of the profile's custom rules only):
	// device names, all permitted or all negated (ClientNeg); ClientFirst puts
	// the client modifier before $dnstype, ClientQuote quotes the names.
	Clients     []string `json:"-"`
	ClientNeg   bool     `json:"-"`
	ClientFirst bool     `json:"-"`
	ClientQuote byte     `json:"-"`
}

func (ru rule) isRewrite() bool { return ru.Kind >= rkRwIP }

// text renders the rule in the filtering-rule syntax.
func (ru rule) text() string {
	switch ru.Kind {
	case rkHosts:
		return "0.0.0.0 " + ru.Name
	case rkRwIP, rkRwCNAME, rkRwRcode:
		return "||" + ru.Name + "^$dnsrewrite=" + ru.Val
	}
	s := "||" + ru.Name + "^"
	if ru.Kind == rkAllow {
		s = "@@" + s
	}
	var mods []string
	if len(ru.Types) > 0 {
		var ts []string
		for _, t := range ru.Types {
			n := dns.TypeToString[t]
			if ru.Neg {
				n = "~" + n
			}
			ts = append(ts, n)
		}
		mods = append(mods, "dnstype="+strings.Join(ts, "|"))
	}
	if len(ru.Clients) > 0 {
		var cs []string
		for _, c := range ru.Clients {
			if ru.ClientQuote != 0 || strings.ContainsAny(c, " ,|") {
				q := ru.ClientQuote
				if q == 0 {
					q = '\''
				}
				c = string(q) + c + string(q)
			}
			if ru.ClientNeg {
				c = "~" + c
			}
			cs = append(cs, c)
		}
		m := "client=" + strings.Join(cs, "|")
		if ru.ClientFirst {
			mods = append([]string{m}, mods...)
		} else {
			mods = append(mods, m)
		}
	}
	if len(mods) > 0 {
		s += "$" + strings.Join(mods, ",")
	}
	return s
}

// clientMatches: $client=A|B restricts the rule to the devices with these
// names, $client=~A excludes them; no modifier = every device.  Names are
// compared exactly.
func (ru rule) clientMatches(client string) bool {
	if len(ru.Clients) == 0 {
		return true
	}
	in := false
	for _, c := range ru.Clients {
		if c == client && client != "" {
			in = true
		}
	}
	return in != ru.ClientNeg
}

// nameMatches: "||d^" covers d and every subdomain of d; a hosts-style line
// covers exactly d.
func (ru rule) nameMatches(host string) bool {
	if host == ru.Name {
		return true
	}
	return ru.Kind != rkHosts && strings.HasSuffix(host, "."+ru.Name)
}

// typeMatches: $dnstype=A|AAAA restricts the rule to these types, $dnstype=~A
// excludes them; no modifier = every type.
func (ru rule) typeMatches(qt uint16) bool {
	if len(ru.Types) == 0 {
		return true
	}
	in := false
	for _, t := range ru.Types {
		if t == qt {
			in = true
		}
	}
	return in != ru.Neg
}

// source is one rule source: the profile's custom rules, one shared list or one
// blocked service.
type source struct {
	ID    string // list id reported in verdicts
	Svc   string // blocked-service id ("" otherwise)
	Class string // "custom", "list", "svc"
	Rules []rule
}

func (s *source) rewriteFor(host string) *rule {
	for i := range s.Rules {
		if ru := &s.Rules[i]; ru.isRewrite() && ru.nameMatches(host) {
			return ru
		}
	}
	return nil
}

// has reports whether s holds a matching allow rule (allow=true) or a matching
// block rule (network or hosts-style).
func (s *source) has(allow bool, host string, qt uint16, client string) (network, hosts bool) {
	for _, ru := range s.Rules {
		if !ru.nameMatches(host) || !ru.clientMatches(client) {
			continue
		}
		switch {
		case allow && ru.Kind == rkAllow && ru.typeMatches(qt):
			network = true
		case !allow && ru.Kind == rkBlock && ru.typeMatches(qt):
			network = true
		case !allow && ru.Kind == rkHosts:
			hosts = true
		}
	}
	return network, hosts
}

// safety is one of the five safety filters.
type safety struct {
	ID    string
	Class string // "danger", "adult", "ssgen", "ssyt", "newreg"
	// hash-prefix filters: Hosts listed; a name matches when it or one of its
	// parent domains is listed.  ReplIP or ReplHost is the replacement.
	Hosts    map[string]bool
	ReplIP   netip.Addr
	ReplHost string
	// safe-search filters: exact name -> replacement (IP or host name).
	Targets map[string]string
}

func (sf *safety) match(host string) (repl string, ok bool) {
	if sf.Targets != nil {
		repl, ok = sf.Targets[host]
		return repl, ok
	}
	for h := host; h != ""; {
		if sf.Hosts[h] {
			if sf.ReplHost != "" {
				return sf.ReplHost, true
			}
			return sf.ReplIP.String(), true
		}
		i := strings.IndexByte(h, '.')
		if i < 0 {
			break
		}
		h = h[i+1:]
	}
	return "", false
}

// ---- verdict model ----

type verdict struct {
	Kind    string   `json:"kind"` // none | allowed | blocked | modresp | modreq
	IDs     []string `json:"ids,omitempty"`
	Svcs    []string `json:"svcs,omitempty"`
	Rcode   int      `json:"rcode,omitempty"`
	Answers []string `json:"answers,omitempty"`
	Shape   bool     `json:"blocked_shape,omitempty"` // modresp in the requester's blocked shape
	Target  string   `json:"target,omitempty"`
}

func isAddrLike(qt uint16) bool { return qt == dns.TypeA || qt == dns.TypeAAAA || qt == dns.TypeHTTPS }

// replVerdict is the verdict of a rewrite to repl (an IP, a host name or an
// rcode name) by list id.
func replVerdict(id, repl string, qt uint16) verdict {
	switch repl {
	case "REFUSED":
		return verdict{Kind: "modresp", IDs: []string{id}, Rcode: dns.RcodeRefused}
	case "NXDOMAIN":
		return verdict{Kind: "modresp", IDs: []string{id}, Rcode: dns.RcodeNameError}
	}
	ip, err := netip.ParseAddr(repl)
	if err != nil {
		return verdict{Kind: "modreq", IDs: []string{id}, Target: repl}
	}
	v := verdict{Kind: "modresp", IDs: []string{id}, Rcode: dns.RcodeSuccess}
	if qt == dns.TypeA && ip.Is4() {
		v.Answers = []string{"A " + ip.String()}
	} else if qt == dns.TypeAAAA && ip.Is6() {
		v.Answers = []string{"AAAA " + ip.String()}
	}
	return v
}

// view is everything of one configuration the evaluator needs.
type view struct {
	Filtering bool
	// Client is the name of the requesting device; only the profile's own rules
	// see it (shared lists and services are matched without a device name).
	Client   string
	Rules    []*source // custom first (if enabled), then the shared lists in configured order
	Services []*source
	Safety   []*safety // enabled ones, in the stated order: danger, adult, ssgen, ssyt, newreg
}

func (v *view) clientFor(s *source) string {
	if s.Class == "custom" {
		return v.Client
	}
	return ""
}

// evalRequest returns the acceptable verdicts for (host, qt) and the classes of
// all sources that had a matching candidate ("cands", for the winner/loser
// matrix).  More than one alternative is returned only where the statement
// leaves the deciding rule open (an allow rule in the profile's own rules AND
// in a shared list).
func evalRequest(v *view, host string, qt uint16) (alts []verdict, cands []string) {
	if !v.Filtering {
		return []verdict{{Kind: "none"}}, nil
	}
	// 1. a DNS-rewrite rule wins outright: custom first, then the lists in order.
	var rw *verdict
	for _, s := range v.Rules {
		if ru := s.rewriteFor(host); ru != nil {
			cands = append(cands, s.Class+"-rw")
			if rw == nil {
				x := replVerdict(s.ID, ru.Val, qt)
				rw = &x
			}
		}
	}
	// 2. allow beats block, over all rule sources.
	var allowCustom bool
	var allowOther, blockIDs, blockSvcs []string
	for _, s := range append(append([]*source{}, v.Rules...), v.Services...) {
		if n, _ := s.has(true, host, qt, v.clientFor(s)); n {
			cands = append(cands, s.Class+"-allow")
			if s.Class == "custom" {
				allowCustom = true
			} else {
				allowOther = append(allowOther, s.ID)
			}
		}
		n, h := s.has(false, host, qt, v.clientFor(s))
		if n {
			cands = append(cands, s.Class+"-block")
		}
		if h {
			cands = append(cands, s.Class+"-hosts")
		}
		if n || h {
			blockIDs = append(blockIDs, s.ID)
			if s.Svc != "" {
				blockSvcs = append(blockSvcs, s.Svc)
			}
		}
	}
	// 3. safety filters in the stated order (address-like questions only).
	var sv *verdict
	if isAddrLike(qt) {
		for _, sf := range v.Safety {
			repl, ok := sf.match(host)
			if !ok {
				continue
			}
			cands = append(cands, sf.Class)
			if sv != nil {
				continue
			}
			x := replVerdict(sf.ID, repl, qt)
			if sf.Targets == nil && sf.ReplHost == "" && qt == dns.TypeHTTPS {
				// a hash-prefix filter with a block-page IP answers HTTPS
				// questions with the requester's blocked response.
				x = verdict{Kind: "modresp", IDs: []string{sf.ID}, Shape: true}
			}
			sv = &x
		}
	}
	sort.Strings(cands)
	switch {
	case rw != nil:
		return []verdict{*rw}, cands
	case allowCustom || len(allowOther) > 0:
		if allowCustom {
			alts = append(alts, verdict{Kind: "allowed", IDs: []string{"custom"}})
		}
		if len(allowOther) > 0 {
			if sv != nil {
				alts = append(alts, *sv)
			} else {
				alts = append(alts, verdict{Kind: "allowed", IDs: allowOther})
			}
		}
		return alts, cands
	case len(blockIDs) > 0:
		return []verdict{{Kind: "blocked", IDs: blockIDs, Svcs: blockSvcs}}, cands
	case sv != nil:
		return []verdict{*sv}, cands
	}
	return []verdict{{Kind: "none"}}, cands
}

// target is one A/AAAA/CNAME target of an upstream answer.
type target struct {
	Host string
	Type uint16
}

// evalResponse: the answer's targets matched against the rule sources; allow
// beats block; rewrites and safety filters do not apply to responses.  Where
// different records of one answer get different verdicts the statement does not
// say which record decides, so both are acceptable.
func evalResponse(v *view, tgts []target) (alts []verdict, cands []string) {
	if !v.Filtering {
		return []verdict{{Kind: "none"}}, nil
	}
	var allowIDs, blockIDs, blockSvcs []string
	for _, t := range tgts {
		var a, b, bs []string
		for _, s := range append(append([]*source{}, v.Rules...), v.Services...) {
			if n, _ := s.has(true, t.Host, t.Type, v.clientFor(s)); n {
				a = append(a, s.ID)
				cands = append(cands, "resp-allow")
			}
			if n, h := s.has(false, t.Host, t.Type, v.clientFor(s)); n || h {
				b = append(b, s.ID)
				cands = append(cands, "resp-block")
				if s.Svc != "" {
					bs = append(bs, s.Svc)
				}
			}
		}
		if len(a) > 0 {
			allowIDs = append(allowIDs, a...)
		} else if len(b) > 0 {
			blockIDs = append(blockIDs, b...)
			blockSvcs = append(blockSvcs, bs...)
		}
	}
	sort.Strings(cands)
	if len(allowIDs) > 0 {
		alts = append(alts, verdict{Kind: "allowed", IDs: allowIDs})
	}
	if len(blockIDs) > 0 {
		alts = append(alts, verdict{Kind: "blocked", IDs: blockIDs, Svcs: blockSvcs})
	}
	if len(alts) == 0 {
		alts = []verdict{{Kind: "none"}}
	}
	return alts, cands
}
