package c02

// Generation of "worlds" (rule lists, services, safety lists, scripted upstream)
// and of configurations, and construction of the REAL filter storage / stack
// from them.

import (
	"context"
	"encoding/json"
	"fmt"
	"math/rand/v2"
	"net"
	"net/http"
	"net/http/httptest"
	"net/netip"
	"net/url"
	"os"
	"path/filepath"
	"strings"
	"sync"
	"time"

	"github.com/AdguardTeam/AdGuardDNS/internal/access"
	"github.com/AdguardTeam/AdGuardDNS/internal/agd"
	"github.com/AdguardTeam/AdGuardDNS/internal/agdcache"
	"github.com/AdguardTeam/AdGuardDNS/internal/agdpasswd"
	"github.com/AdguardTeam/AdGuardDNS/internal/agdtime"
	"github.com/AdguardTeam/AdGuardDNS/internal/dnsmsg"
	"github.com/AdguardTeam/AdGuardDNS/internal/filter"
	"github.com/AdguardTeam/AdGuardDNS/internal/filter/filterstorage"
	"github.com/AdguardTeam/AdGuardDNS/internal/filter/hashprefix"
	"github.com/AdguardTeam/AdGuardDNS/verif/stack"
	"github.com/c2h5oh/datasize"
	"github.com/miekg/dns"
)

// ---- scripted upstream ----

const (
	upstreamTTL = 300
	nV4Pool     = 48
	nV6Pool     = 48
	nCNPool     = 12
)

func poolV4(i int) netip.Addr { return netip.AddrFrom4([4]byte{198, 51, 100, byte(10 + i%nV4Pool)}) }
func poolV6(i int) netip.Addr {
	a := netip.MustParseAddr("2001:db8:5151::").As16()
	a[15] = byte(0x10 + i%nV6Pool)
	return netip.AddrFrom16(a)
}
func poolCN(i int) string { return fmt.Sprintf("t%02d.upstream-marker.vtest", i%nCNPool) }

func fnv(s string) uint32 {
	h := uint32(2166136261)
	for i := 0; i < len(s); i++ {
		h = (h ^ uint32(s[i])) * 16777619
	}
	return h
}

// upstreamAnswer is the scripted upstream: a pure function of the lower-cased
// name and the qtype.  Every record is recognisable as coming from upstream.
func upstreamAnswer(qname string, qt uint16) (ans []dns.RR) {
	name := strings.ToLower(qname)
	h := int(fnv(name) >> 3)
	hdr := func(n string, t uint16) dns.RR_Header {
		return dns.RR_Header{Name: n, Rrtype: t, Class: dns.ClassINET, Ttl: upstreamTTL}
	}
	owner := qname
	switch qt {
	case dns.TypeA, dns.TypeAAAA:
		if h%3 == 0 {
			cn := dns.Fqdn(poolCN(h / 3))
			ans = append(ans, &dns.CNAME{Hdr: hdr(owner, dns.TypeCNAME), Target: cn})
			owner = cn
		}
		n := 1 + (h/7)%2
		for i := 0; i < n; i++ {
			if qt == dns.TypeA {
				ans = append(ans, &dns.A{Hdr: hdr(owner, qt), A: net.IP(poolV4(h/11 + i*5).AsSlice())})
			} else {
				ans = append(ans, &dns.AAAA{Hdr: hdr(owner, qt), AAAA: net.IP(poolV6(h/13 + i*5).AsSlice())})
			}
		}
	case dns.TypeHTTPS:
		ans = append(ans, &dns.HTTPS{SVCB: dns.SVCB{Hdr: hdr(owner, qt), Priority: 1, Target: "svc.upstream-marker.vtest.",
			Value: []dns.SVCBKeyValue{&dns.SVCBAlpn{Alpn: []string{"h2"}}}}})
	case dns.TypeTXT:
		ans = append(ans, &dns.TXT{Hdr: hdr(owner, qt), Txt: []string{fmt.Sprintf("upstream-marker-%x", h)}})
	case dns.TypeMX:
		ans = append(ans, &dns.MX{Hdr: hdr(owner, qt), Preference: 10, Mx: "mx.upstream-marker.vtest."})
	}
	return ans
}

func upstreamFunc(_ context.Context, req *dns.Msg, _ *agd.RequestInfo) (*dns.Msg, error) {
	resp := &dns.Msg{}
	resp.SetReply(req)
	resp.RecursionAvailable = true
	q := req.Question[0]
	resp.Answer = upstreamAnswer(q.Name, q.Qtype)
	resp.Ns = upstreamAuthority(q.Name, q.Qtype)
	if o := req.IsEdns0(); o != nil {
		resp.SetEdns0(o.UDPSize(), o.Do())
	}
	return resp, nil
}

// upstreamAuthority: questions of a type the scripted upstream has no answer for
// get a recognisable SOA in the authority section, so that "passed through" and
// "answered with a synthesised NODATA" can be told apart for them too.
func upstreamAuthority(qname string, qt uint16) []dns.RR {
	if len(upstreamAnswer(qname, qt)) > 0 {
		return nil
	}
	return []dns.RR{&dns.SOA{Hdr: dns.RR_Header{Name: qname, Rrtype: dns.TypeSOA, Class: dns.ClassINET, Ttl: upstreamTTL},
		Ns: "ns.upstream-marker.vtest.", Mbox: "h.upstream-marker.vtest.", Serial: fnv(strings.ToLower(qname)), Refresh: 1, Retry: 1, Expire: 1, Minttl: 60}}
}

// targetsOf lists the A/AAAA/CNAME targets of an answer section.
func targetsOf(ans []dns.RR) (ts []target) {
	for _, rr := range ans {
		switch rr := rr.(type) {
		case *dns.A:
			ts = append(ts, target{rr.A.String(), dns.TypeA})
		case *dns.AAAA:
			ts = append(ts, target{rr.AAAA.String(), dns.TypeAAAA})
		case *dns.CNAME:
			ts = append(ts, target{strings.TrimSuffix(strings.ToLower(rr.Target), "."), dns.TypeCNAME})
		}
	}
	return ts
}

func rrStrings(ans []dns.RR) (ss []string) {
	for _, rr := range ans {
		ss = append(ss, rr.String())
	}
	return ss
}

// ---- world ----

type world struct {
	Idx       int
	Names     []string
	Lists     []*source
	Svcs      []*source
	CustomTpl []rule
	Safety    map[string]*safety // by class
	DefMode   modeSpec
	DefTTL    uint32
	CacheOn   bool
	Refresh   bool

	storage *filterstorage.Default
	hp      map[string]*hashprefix.Filter
	hpCache *clearMgr
	// ref is a twin storage over the same files with the rule-list and
	// blocked-service result caches OFF (reference for the cache-alias histories).
	ref     *filterstorage.Default
	refHP   *clearMgr
	errs    *errCollector
	cloner  *dnsmsg.Cloner
	defMsgs *dnsmsg.Constructor
}

var listIDs = []string{"vl_a", "vl_b", "vl_c"}
var svcIDs = []string{"svc_a", "svc_b", "svc_c"}
var safetyOrder = []string{"danger", "adult", "ssgen", "ssyt", "newreg"}
var safetyID = map[string]string{
	"danger": string(filter.IDSafeBrowsing), "adult": string(filter.IDAdultBlocking),
	"ssgen": string(filter.IDGeneralSafeSearch), "ssyt": string(filter.IDYoutubeSafeSearch),
	"newreg": string(filter.IDNewRegDomains),
}

// scenarios force overlapping sources on one base name each.  Token syntax:
// slot:kind[:dnstype] for rule sources (C custom, L0-2 shared lists, S0-2
// services; kinds block allow hosts rw-ip rw-ip6 rw-cname rw-refused rw-nx and,
// aimed at the upstream answer of that name, rblock rallow rblock6 rblockc) or a
// bare safety class (ssgen-ip / ssyt-ip: replacement is an address).
var scenarios = []string{
	"C:rw-ip L0:rw-ip L1:block",
	"C:rw-cname L1:rw-refused L2:allow",
	"L0:rw-ip L1:rw-ip L2:rw-cname",
	"L0:rw-nx L1:allow L2:block danger",
	"L0:rw-ip6 L1:block C:allow",
	"L2:rw-cname L0:rw-refused adult",
	"L1:rw-ip L2:rw-ip6 ssgen",
	"C:allow L0:block danger",
	"C:allow adult ssgen",
	"C:allow newreg ssyt L1:hosts",
	"L0:allow C:block",
	"L1:allow S0:block",
	"L0:allow danger",
	"L1:allow L2:block adult",
	"L2:allow ssgen newreg",
	"L0:allow C:allow danger",
	"L0:block danger adult",
	"C:block ssgen",
	"S1:block newreg",
	"S0:block L0:allow ssyt",
	"danger adult",
	"adult ssgen",
	"ssgen ssyt",
	"ssyt newreg",
	"danger newreg",
	"adult newreg ssgen-ip",
	"ssgen-ip ssyt-ip",
	"danger ssyt-ip",
	"L0:hosts L1:allow",
	"L0:hosts C:rw-ip",
	"L2:hosts danger",
	"C:hosts L0:allow:A",
	"C:allow:A L0:block",
	"L0:block:AAAA L1:allow:~A",
	"L1:block:A|AAAA adult",
	"C:block:~A L2:allow:AAAA",
	"L2:block:~A|~AAAA S2:block newreg",
	"L0:rblock",
	"L0:rblock L1:rallow",
	"L1:allow L0:rblock",
	"C:allow L2:rblock",
	"C:rblock",
	"S0:rblock",
	"L0:block L1:rblock",
	"L0:rblock6",
	"L1:rblockc",
	"danger L0:rblock",
	"C:rw-cname L0:rblock",
	"L2:rallow S1:rblock",
	"C:rallow L0:rblock L1:rblock6",
	// qtype-restricted rules in cache-enabled sources (cache-alias histories)
	"L0:block:A",
	"S0:block:AAAA",
	"L1:allow:A L2:block",
	"L2:block:TXT danger",
	"S1:block:~A adult",
	"L0:allow:~AAAA L1:block",
}

const nNoiseNames = 8

func parseTypes(s string) (ts []uint16, neg bool) {
	for _, p := range strings.Split(s, "|") {
		if strings.HasPrefix(p, "~") {
			neg = true
			p = p[1:]
		}
		ts = append(ts, dns.StringToType[p])
	}
	return ts, neg
}

func (w *world) src(slot string) *source {
	switch slot[0] {
	case 'L':
		return w.Lists[int(slot[1]-'0')]
	case 'S':
		return w.Svcs[int(slot[1]-'0')]
	}
	return nil
}

// rewriteValue picks a rewrite value that identifies the source.
func rewriteValue(kind string, slot string, rng *rand.Rand) (rkind, string) {
	n := 1 + rng.IntN(200)
	switch kind {
	case "rw-ip":
		return rkRwIP, fmt.Sprintf("192.0.2.%d", n)
	case "rw-ip6":
		return rkRwIP, fmt.Sprintf("2001:db8:aaaa::%x", n)
	case "rw-cname":
		return rkRwCNAME, fmt.Sprintf("cnt%02d.rewritten.vtest", n%40)
	case "rw-refused":
		return rkRwRcode, "REFUSED"
	}
	return rkRwRcode, "NXDOMAIN"
}

func hasRewrite(rules []rule, name string) bool {
	for _, ru := range rules {
		if ru.isRewrite() && ru.Name == name {
			return true
		}
	}
	return false
}

func noiseRule(rng *rand.Rand, name string, allowRewrite, blockOnly bool) rule {
	x := rng.IntN(100)
	ru := rule{Name: name}
	switch {
	case blockOnly || x < 35:
		ru.Kind = rkBlock
	case x < 60:
		ru.Kind = rkAllow
	case x < 70:
		ru.Kind = rkHosts
	case !allowRewrite:
		ru.Kind = rkBlock
	case x < 84:
		ru.Kind, ru.Val = rewriteValue("rw-ip", "", rng)
	case x < 88:
		ru.Kind, ru.Val = rewriteValue("rw-ip6", "", rng)
	case x < 95:
		ru.Kind, ru.Val = rewriteValue("rw-cname", "", rng)
	default:
		ru.Kind, ru.Val = rewriteValue([]string{"rw-refused", "rw-nx"}[rng.IntN(2)], "", rng)
	}
	if (ru.Kind == rkBlock || ru.Kind == rkAllow) && rng.IntN(4) == 0 {
		ru.Types, ru.Neg = parseTypes([]string{"A", "AAAA", "~A", "~AAAA", "A|AAAA", "~A|~AAAA", "TXT", "~TXT", "HTTPS"}[rng.IntN(9)])
	}
	return ru
}

func genWorld(rng *rand.Rand, idx int) *world {
	w := &world{Idx: idx, Safety: map[string]*safety{}, hp: map[string]*hashprefix.Filter{}}
	for i := 0; i < len(scenarios)+nNoiseNames; i++ {
		w.Names = append(w.Names, fmt.Sprintf("n%02d-w%d.vtest", i, idx))
	}
	for _, id := range listIDs {
		w.Lists = append(w.Lists, &source{ID: id, Class: "list"})
	}
	for _, id := range svcIDs {
		w.Svcs = append(w.Svcs, &source{ID: string(filter.IDBlockedService), Svc: id, Class: "svc"})
	}
	for _, c := range safetyOrder {
		sf := &safety{ID: safetyID[c], Class: c}
		if c == "ssgen" || c == "ssyt" {
			sf.Targets = map[string]string{}
		} else {
			sf.Hosts = map[string]bool{}
			if rng.IntN(2) == 0 {
				sf.ReplHost = c + "-blockpage.vtest"
			} else if rng.IntN(2) == 0 {
				sf.ReplIP = netip.MustParseAddr(fmt.Sprintf("192.0.2.%d", 210+len(w.Safety)))
			} else {
				sf.ReplIP = netip.MustParseAddr(fmt.Sprintf("2001:db8:b10c::%x", 0x210+len(w.Safety)))
			}
		}
		w.Safety[c] = sf
	}
	ssTarget := func(c string, ip bool) string {
		if ip {
			return fmt.Sprintf("192.0.2.%d", 230+rng.IntN(20))
		}
		return "safe-" + c + ".vtest"
	}
	for si, sc := range scenarios {
		name := w.Names[si]
		up4, up6 := upstreamAnswer(dns.Fqdn(name), dns.TypeA), upstreamAnswer(dns.Fqdn(name), dns.TypeAAAA)
		for _, tok := range strings.Fields(sc) {
			parts := strings.Split(tok, ":")
			if len(parts) == 1 {
				c, ip := strings.TrimSuffix(tok, "-ip"), strings.HasSuffix(tok, "-ip")
				sf := w.Safety[c]
				if sf.Targets != nil {
					sf.Targets[name] = ssTarget(c, ip)
				} else {
					sf.Hosts[name] = true
				}
				continue
			}
			slot, kind := parts[0], parts[1]
			ru := rule{Name: name}
			switch kind {
			case "block":
				ru.Kind = rkBlock
			case "allow":
				ru.Kind = rkAllow
			case "hosts":
				ru.Kind = rkHosts
			case "rblock", "rallow":
				ru.Kind = rkBlock
				if kind == "rallow" {
					ru.Kind = rkAllow
				}
				ru.Name = up4[len(up4)-1].(*dns.A).A.String()
			case "rblock6":
				ru.Kind = rkBlock
				ru.Name = up6[len(up6)-1].(*dns.AAAA).AAAA.String()
			case "rblockc":
				ru.Kind = rkBlock
				if cn, ok := up4[0].(*dns.CNAME); ok {
					ru.Name = strings.TrimSuffix(cn.Target, ".")
				} else {
					ru.Name = up4[0].(*dns.A).A.String()
				}
			default:
				ru.Kind, ru.Val = rewriteValue(kind, slot, rng)
			}
			if len(parts) == 3 {
				ru.Types, ru.Neg = parseTypes(parts[2])
			}
			if slot == "C" {
				w.CustomTpl = append(w.CustomTpl, ru)
			} else {
				s := w.src(slot)
				s.Rules = append(s.Rules, ru)
			}
		}
	}
	// noise
	for _, name := range w.Names {
		for _, s := range w.Lists {
			if rng.IntN(100) < 6 {
				if ru := noiseRule(rng, name, !hasRewrite(s.Rules, name), false); true {
					s.Rules = append(s.Rules, ru)
				}
			}
		}
		for _, s := range w.Svcs {
			if rng.IntN(100) < 5 {
				s.Rules = append(s.Rules, noiseRule(rng, name, false, true))
			}
		}
		for _, c := range safetyOrder {
			if rng.IntN(100) >= 5 {
				continue
			}
			if sf := w.Safety[c]; sf.Targets != nil {
				if _, ok := sf.Targets[name]; !ok {
					sf.Targets[name] = ssTarget(c, rng.IntN(3) == 0)
				}
			} else {
				sf.Hosts[name] = true
			}
		}
	}
	// hash-prefix lists also hold hosts with exactly four labels (the deepest name
	// the filters look up) whose parents are not necessarily listed
	for i, name := range w.Names[len(scenarios):] {
		w.Safety[[]string{"danger", "adult", "newreg"}[i%3]].Hosts["l4.s."+name] = true
	}
	// a few response-side noise rules on pool addresses / CNAME targets
	for _, s := range w.Lists {
		for k := 0; k < 2; k++ {
			ru := rule{Kind: rkBlock, Name: poolV4(rng.IntN(nV4Pool)).String()}
			switch rng.IntN(4) {
			case 0:
				ru.Kind = rkAllow
			case 1:
				ru.Name = poolCN(rng.IntN(nCNPool))
			}
			s.Rules = append(s.Rules, ru)
		}
	}
	w.DefMode = genMode(rng)
	w.DefTTL = []uint32{10, 15, 45}[rng.IntN(3)]
	_ = rng.IntN(4)
	w.CacheOn = idx%4 != 3 // deterministic: three worlds in four run with the result caches on
	w.Refresh = rng.IntN(2) == 0
	return w
}

// ---- blocking modes ----

type modeSpec struct {
	Shape string       `json:"shape"` // nullip custom46 custom4 custom6 nxdomain refused
	V4    []netip.Addr `json:"v4,omitempty"`
	V6    []netip.Addr `json:"v6,omitempty"`
}

var shapes = []string{"nullip", "custom46", "custom4", "custom6", "nxdomain", "refused"}

func genModeShape(rng *rand.Rand, shape string) modeSpec {
	m := modeSpec{Shape: shape}
	if shape == "custom46" || shape == "custom4" {
		for i := 0; i < 1+rng.IntN(2); i++ {
			m.V4 = append(m.V4, netip.AddrFrom4([4]byte{203, 0, 113, byte(1 + rng.IntN(250))}))
		}
	}
	if shape == "custom46" || shape == "custom6" {
		for i := 0; i < 1+rng.IntN(2); i++ {
			m.V6 = append(m.V6, netip.MustParseAddr(fmt.Sprintf("2001:db8:b10c:1::%x", 1+rng.IntN(60000))))
		}
	}
	return m
}

func genMode(rng *rand.Rand) modeSpec { return genModeShape(rng, shapes[rng.IntN(len(shapes))]) }

func (m modeSpec) real() dnsmsg.BlockingMode {
	switch m.Shape {
	case "nullip":
		return &dnsmsg.BlockingModeNullIP{}
	case "nxdomain":
		return &dnsmsg.BlockingModeNXDOMAIN{}
	case "refused":
		return &dnsmsg.BlockingModeREFUSED{}
	}
	return &dnsmsg.BlockingModeCustomIP{IPv4: m.V4, IPv6: m.V6}
}

// ---- configurations ----

type cfg struct {
	Idx       int      `json:"idx"`
	World     int      `json:"world"`
	Anonymous bool     `json:"anonymous"`
	ProfOn    bool     `json:"profile_filtering"`
	DevOn     bool     `json:"device_filtering"`
	CustomOn  bool     `json:"custom_enabled"`
	Custom    *source  `json:"-"`
	ListsOn   bool     `json:"rule_lists_enabled"`
	ListIDs   []string `json:"list_ids"`
	ParentOn  bool     `json:"parental_enabled"`
	Adult     bool     `json:"adult"`
	SSGen     bool     `json:"ssgen"`
	SSYT      bool     `json:"ssyt"`
	Services  []string `json:"services"`
	SBOn      bool     `json:"safe_browsing_enabled"`
	Danger    bool     `json:"danger"`
	NewReg    bool     `json:"newreg"`
	Mode      modeSpec `json:"mode"`
	TTL       uint32   `json:"ttl"`
	ProfID    string   `json:"profile_id,omitempty"`
	DevID     string   `json:"device_id,omitempty"`
	DevName   string   `json:"device_name,omitempty"`
	Group     int      `json:"group"`

	fconf   filter.Config
	msgs    *dnsmsg.Constructor
	msgsErr string
}

func genCfg(rng *rand.Rand, w *world, idx, k int, anonymous bool, shape string) *cfg {
	c := &cfg{Idx: idx, World: w.Idx, Anonymous: anonymous, ProfOn: true, DevOn: true}
	p := func(pct int) bool { return rng.IntN(100) < pct }
	if !anonymous {
		c.ProfOn, c.DevOn = !p(8), !p(8)
		c.ProfID, c.DevID = fmt.Sprintf("p%dx%d", w.Idx, k), fmt.Sprintf("d%dx%d", w.Idx, k)
		c.CustomOn = p(85)
		if p(85) {
			cs := &source{ID: string(filter.IDCustom), Class: "custom"}
			for _, ru := range w.CustomTpl {
				if p(80) {
					cs.Rules = append(cs.Rules, ru)
				}
			}
			for _, name := range w.Names {
				if p(4) {
					cs.Rules = append(cs.Rules, noiseRule(rng, name, !hasRewrite(cs.Rules, name), false))
				}
			}
			rng.Shuffle(len(cs.Rules), func(i, j int) { cs.Rules[i], cs.Rules[j] = cs.Rules[j], cs.Rules[i] })
			c.Custom = cs
		}
		c.Mode = genModeShape(rng, shape)
		c.TTL = []uint32{5, 7, 30, 60, 120, 600, 3600}[rng.IntN(7)]
		// every blocking shape gets a profile with TTL 0 (legal: "must be
		// non-negative"; what the backend leaves when no TTL is set) in every
		// third world and one with TTL 1 s in another third, deterministically.
		for si, sh := range shapes {
			if sh == shape {
				switch (w.Idx + si) % 3 {
				case 0:
					c.TTL = 0
				case 1:
					c.TTL = 1
				}
			}
		}
	} else {
		c.Mode, c.TTL = w.DefMode, w.DefTTL
		c.Group = k
	}
	c.ListsOn = p(90)
	ids := append([]string{}, listIDs...)
	rng.Shuffle(len(ids), func(i, j int) { ids[i], ids[j] = ids[j], ids[i] })
	c.ListIDs = ids[:1+rng.IntN(3)]
	if p(15) {
		c.ListIDs = append(c.ListIDs, "vl_unknown")
		rng.Shuffle(len(c.ListIDs), func(i, j int) { c.ListIDs[i], c.ListIDs[j] = c.ListIDs[j], c.ListIDs[i] })
	}
	c.ParentOn, c.SBOn = p(88), p(88)
	c.Adult, c.SSGen, c.SSYT, c.Danger, c.NewReg = p(70), p(70), p(70), p(70), p(70)
	sv := append([]string{}, svcIDs...)
	rng.Shuffle(len(sv), func(i, j int) { sv[i], sv[j] = sv[j], sv[i] })
	c.Services = sv[:rng.IntN(3)]
	return c
}

// view derives what the evaluator needs from the documented meaning of the
// configuration switches.
func (c *cfg) view(w *world) *view {
	v := &view{Filtering: c.Anonymous || (c.ProfOn && c.DevOn), Client: c.DevName}
	if c.CustomOn && c.Custom != nil && len(c.Custom.Rules) > 0 {
		v.Rules = append(v.Rules, c.Custom)
	}
	if c.ListsOn {
		for _, id := range c.ListIDs {
			for _, l := range w.Lists {
				if l.ID == id {
					v.Rules = append(v.Rules, l)
				}
			}
		}
	}
	if c.ParentOn {
		for _, id := range c.Services {
			for _, s := range w.Svcs {
				if s.Svc == id {
					v.Services = append(v.Services, s)
				}
			}
		}
	}
	on := map[string]bool{"danger": c.SBOn && c.Danger, "adult": c.ParentOn && c.Adult, "ssgen": c.ParentOn && c.SSGen,
		"ssyt": c.ParentOn && c.SSYT, "newreg": c.SBOn && c.NewReg}
	for _, cl := range safetyOrder {
		if on[cl] {
			v.Safety = append(v.Safety, w.Safety[cl])
		}
	}
	return v
}

// realize builds the repository's configuration values.
func (c *cfg) realize(w *world) error {
	par := &filter.ConfigParental{Enabled: c.ParentOn, AdultBlockingEnabled: c.Adult,
		SafeSearchGeneralEnabled: c.SSGen, SafeSearchYouTubeEnabled: c.SSYT}
	for _, s := range c.Services {
		par.BlockedServices = append(par.BlockedServices, filter.BlockedServiceID(s))
	}
	rl := &filter.ConfigRuleList{Enabled: c.ListsOn}
	for _, id := range c.ListIDs {
		rl.IDs = append(rl.IDs, filter.ID(id))
	}
	sb := &filter.ConfigSafeBrowsing{Enabled: c.SBOn, DangerousDomainsEnabled: c.Danger, NewlyRegisteredDomainsEnabled: c.NewReg}
	var err error
	if c.Anonymous {
		c.fconf = &filter.ConfigGroup{Parental: par, RuleList: rl, SafeBrowsing: sb}
		c.msgs = w.defMsgs
		return nil
	}
	cu := &filter.ConfigCustom{ID: c.ProfID, UpdateTime: time.Unix(1700000000, 0), Enabled: c.CustomOn}
	if c.Custom != nil {
		for _, ru := range c.Custom.Rules {
			cu.Rules = append(cu.Rules, filter.RuleText(ru.text()))
		}
	}
	c.fconf = &filter.ConfigClient{Custom: cu, Parental: par, RuleList: rl, SafeBrowsing: sb}
	c.msgs, err = dnsmsg.NewConstructor(&dnsmsg.ConstructorConfig{Cloner: w.cloner, BlockingMode: c.Mode.real(),
		StructuredErrors: stack.SDE(false), FilteredResponseTTL: time.Duration(c.TTL) * time.Second})
	if err != nil {
		// a legal profile whose message constructor is refused: the observation
		// at the storage boundary is impossible, the one behind the stack is not.
		c.msgs, c.msgsErr = nil, err.Error()
	}
	return nil
}

func (c *cfg) profile() (*agd.Profile, *agd.Device) {
	return &agd.Profile{ID: agd.ProfileID(c.ProfID), FilterConfig: c.fconf.(*filter.ConfigClient), Access: access.EmptyProfile{},
			BlockingMode: c.Mode.real(), Ratelimiter: agd.GlobalRatelimiter{}, FilteringEnabled: c.ProfOn,
			FilteredResponseTTL: time.Duration(c.TTL) * time.Second, QueryLogEnabled: true},
		&agd.Device{ID: agd.DeviceID(c.DevID), Auth: &agd.AuthSettings{PasswordHash: agdpasswd.AllowAuthenticator{}},
			FilteringEnabled: c.DevOn}
}

// ---- HTTP fixture ----

type fixture struct {
	mu    sync.Mutex
	files map[string]string
	hits  map[string]int
	srv   *httptest.Server
}

func newFixture() *fixture {
	f := &fixture{files: map[string]string{}, hits: map[string]int{}}
	f.srv = httptest.NewServer(http.HandlerFunc(func(rw http.ResponseWriter, rq *http.Request) {
		f.mu.Lock()
		body, ok := f.files[rq.URL.Path]
		f.hits[rq.URL.Path]++
		f.mu.Unlock()
		if !ok {
			http.NotFound(rw, rq)
			return
		}
		rw.Header().Set("Server", "verif-c02")
		_, _ = rw.Write([]byte(body))
	}))
	return f
}

func (f *fixture) put(path, body string) *url.URL {
	f.mu.Lock()
	f.files[path] = body
	f.mu.Unlock()
	u, _ := url.Parse(f.srv.URL + path)
	return u
}

func (f *fixture) totalHits() (n int) {
	f.mu.Lock()
	defer f.mu.Unlock()
	for _, h := range f.hits {
		n += h
	}
	return n
}

// clearMgr is a cache manager that can clear every registered cache (used for
// the hash-prefix result caches only, see the C12 interaction).
type clearMgr struct {
	mu     sync.Mutex
	caches []agdcache.Clearer
}

func (m *clearMgr) Add(_ string, c agdcache.Clearer) {
	m.mu.Lock()
	m.caches = append(m.caches, c)
	m.mu.Unlock()
}
func (m *clearMgr) ClearByID(string) {}
func (m *clearMgr) clearAll() {
	m.mu.Lock()
	defer m.mu.Unlock()
	for _, c := range m.caches {
		c.Clear()
	}
}

type errCollector struct {
	mu   sync.Mutex
	errs []string
}

func (e *errCollector) Collect(_ context.Context, err error) {
	e.mu.Lock()
	e.errs = append(e.errs, err.Error())
	e.mu.Unlock()
}

func (e *errCollector) take() []string {
	e.mu.Lock()
	defer e.mu.Unlock()
	out := e.errs
	e.errs = nil
	return out
}

func ruleListText(s *source) string {
	b := &strings.Builder{}
	fmt.Fprintf(b, "! Title: %s\n", s.ID)
	for _, ru := range s.Rules {
		b.WriteString(ru.text())
		b.WriteByte('\n')
	}
	fmt.Fprintf(b, "||filler-%s.vtest^\n", strings.ReplaceAll(s.ID, "_", "-"))
	return b.String()
}

// build serves the world's files and constructs the real storage.
func (w *world) build(ctx context.Context, fx *fixture, dir string) (err error) {
	pfx := fmt.Sprintf("/w%d", w.Idx)
	cacheDir := filepath.Join(dir, fmt.Sprintf("w%d", w.Idx))
	if err = os.MkdirAll(cacheDir, 0o755); err != nil {
		return err
	}
	w.cloner = dnsmsg.NewCloner(dnsmsg.EmptyClonerStat{})
	w.errs = &errCollector{}
	if w.defMsgs, err = dnsmsg.NewConstructor(&dnsmsg.ConstructorConfig{Cloner: w.cloner, BlockingMode: w.DefMode.real(),
		StructuredErrors: stack.SDE(false), FilteredResponseTTL: time.Duration(w.DefTTL) * time.Second}); err != nil {
		return err
	}
	staleness := time.Hour
	if w.Refresh {
		staleness = time.Nanosecond
	}
	const timeout = 30 * time.Second
	const maxSize = 4 * datasize.MB

	type idxF struct {
		DownloadURL string `json:"downloadUrl"`
		Key         string `json:"filterKey"`
	}
	var idx struct {
		Filters []idxF `json:"filters"`
	}
	// index order is deliberately not the configured order
	for i := len(w.Lists) - 1; i >= 0; i-- {
		l := w.Lists[i]
		u := fx.put(pfx+"/list/"+l.ID, ruleListText(l))
		idx.Filters = append(idx.Filters, idxF{u.String(), l.ID})
	}
	ib, _ := json.Marshal(idx)
	idxURL := fx.put(pfx+"/filters.json", string(ib))

	type svcF struct {
		ID    string   `json:"id"`
		Name  string   `json:"name"`
		Rules []string `json:"rules"`
	}
	var sidx struct {
		Svcs []svcF `json:"blocked_services"`
	}
	for _, s := range w.Svcs {
		sf := svcF{ID: s.Svc, Name: "Service " + s.Svc, Rules: []string{"||filler-" + strings.ReplaceAll(s.Svc, "_", "-") + ".vtest^"}}
		for _, ru := range s.Rules {
			sf.Rules = append(sf.Rules, ru.text())
		}
		sidx.Svcs = append(sidx.Svcs, sf)
	}
	sb, _ := json.Marshal(sidx)
	svcURL := fx.put(pfx+"/services.json", string(sb))

	ssText := func(sf *safety) string {
		b := &strings.Builder{}
		fmt.Fprintf(b, "! %s\n|filler-%s.vtest^$dnsrewrite=NOERROR;CNAME;safe-filler.vtest\n", sf.Class, sf.Class)
		for name, t := range sf.Targets {
			if ip, perr := netip.ParseAddr(t); perr == nil {
				typ := "A"
				if ip.Is6() {
					typ = "AAAA"
				}
				fmt.Fprintf(b, "|%s^$dnsrewrite=NOERROR;%s;%s\n", name, typ, t)
			} else {
				fmt.Fprintf(b, "|%s^$dnsrewrite=NOERROR;CNAME;%s\n", name, t)
			}
		}
		return b.String()
	}
	ssConf := func(sf *safety) *filterstorage.ConfigSafeSearch {
		return &filterstorage.ConfigSafeSearch{URL: fx.put(pfx+"/"+sf.Class, ssText(sf)), ID: filter.ID(sf.ID), MaxSize: maxSize,
			ResultCacheTTL: time.Hour, RefreshTimeout: timeout, Staleness: staleness, ResultCacheCount: 1000, Enabled: true}
	}

	mk := func(tag string, cacheOn bool) (st *filterstorage.Default, mgr *clearMgr, hps map[string]*hashprefix.Filter, err error) {
		mgr, hps = &clearMgr{}, map[string]*hashprefix.Filter{}
		cdir := filepath.Join(cacheDir, tag)
		if err = os.MkdirAll(cdir, 0o755); err != nil {
			return nil, nil, nil, err
		}
		for _, cl := range []string{"danger", "adult", "newreg"} {
			sf := w.Safety[cl]
			b := &strings.Builder{}
			fmt.Fprintf(b, "# %s\nfiller-%s.vtest\n", cl, cl)
			for h := range sf.Hosts {
				b.WriteString(h + "\n")
			}
			u := fx.put(pfx+"/hp/"+tag+"/"+cl, b.String())
			hs, herr := hashprefix.NewStorage("")
			if herr != nil {
				return nil, nil, nil, herr
			}
			repl := sf.ReplHost
			if repl == "" {
				repl = sf.ReplIP.String()
			}
			f, ferr := hashprefix.NewFilter(&hashprefix.FilterConfig{Logger: stack.Logger(), Cloner: w.cloner, CacheManager: mgr,
				Hashes: hs, URL: u, ErrColl: w.errs, Metrics: filter.EmptyMetrics{}, ID: filter.ID(sf.ID),
				CachePath: filepath.Join(cdir, "hp-"+cl), ReplacementHost: repl, Staleness: staleness, CacheTTL: time.Hour,
				RefreshTimeout: timeout, CacheCount: 1000, MaxSize: maxSize})
			if ferr != nil {
				return nil, nil, nil, fmt.Errorf("hashprefix %s: %w", cl, ferr)
			}
			if ferr = f.RefreshInitial(ctx); ferr != nil {
				return nil, nil, nil, fmt.Errorf("hashprefix %s initial refresh: %w", cl, ferr)
			}
			hps[cl] = f
		}
		st, err = filterstorage.New(&filterstorage.Config{
			BaseLogger: stack.Logger(), Logger: stack.Logger(),
			BlockedServices: &filterstorage.ConfigBlockedServices{IndexURL: svcURL, IndexMaxSize: maxSize, IndexRefreshTimeout: timeout,
				IndexStaleness: staleness, ResultCacheCount: 1000, ResultCacheEnabled: cacheOn, Enabled: true},
			Custom:     &filterstorage.ConfigCustom{CacheCount: 1000},
			HashPrefix: &filterstorage.ConfigHashPrefix{Adult: hps["adult"], Dangerous: hps["danger"], NewlyRegistered: hps["newreg"]},
			RuleLists: &filterstorage.ConfigRuleLists{IndexURL: idxURL, IndexMaxSize: maxSize, MaxSize: maxSize, IndexRefreshTimeout: timeout,
				IndexStaleness: staleness, RefreshTimeout: timeout, Staleness: staleness, ResultCacheCount: 1000, ResultCacheEnabled: cacheOn},
			SafeSearchGeneral: ssConf(w.Safety["ssgen"]), SafeSearchYouTube: ssConf(w.Safety["ssyt"]),
			CacheManager: agdcache.EmptyManager{}, Clock: agdtime.SystemClock{}, ErrColl: w.errs, Metrics: filter.EmptyMetrics{}, CacheDir: cdir,
		})
		if err != nil {
			return nil, nil, nil, fmt.Errorf("filterstorage.New: %w", err)
		}
		if err = st.RefreshInitial(ctx); err != nil {
			return nil, nil, nil, err
		}
		if w.Refresh {
			if err = st.Refresh(ctx); err != nil {
				return nil, nil, nil, fmt.Errorf("refresh: %w", err)
			}
			for cl, f := range hps {
				if err = f.Refresh(ctx); err != nil {
					return nil, nil, nil, fmt.Errorf("hashprefix %s refresh: %w", cl, err)
				}
			}
		}
		return st, mgr, hps, nil
	}
	if w.storage, w.hpCache, w.hp, err = mk("main", w.CacheOn); err != nil {
		return err
	}
	if w.CacheOn {
		if w.ref, w.refHP, _, err = mk("ref", false); err != nil {
			return fmt.Errorf("cache-off twin: %w", err)
		}
	}
	return nil
}
