package c02

// Two-device histories: custom rules limited to devices of the profile by the
// $client modifier (documented meaning: the rule applies only to / to all but
// the named devices), written in every position and spelling.  Several devices
// with different names of ONE profile ask for the same (host, qtype) on one
// storage, in both orders; every device must get the verdict of ITS name.

import (
	"fmt"
	"math/rand/v2"
	"net/netip"
	"time"

	"github.com/AdguardTeam/AdGuardDNS/internal/access"
	"github.com/AdguardTeam/AdGuardDNS/internal/agd"
	"github.com/AdguardTeam/AdGuardDNS/internal/agdpasswd"
	"github.com/AdguardTeam/AdGuardDNS/internal/filter"
	"github.com/AdguardTeam/AdGuardDNS/verif/stack"
	"github.com/AdguardTeam/AdGuardDNS/verif/vkit"
	"github.com/miekg/dns"
)

var deviceNames = []string{"Kids", "Dad", "Kids Tablet", "Mum phone", "tv"}

// clientRule builds a custom rule limited by $client.  style: 0 = rules whose
// client modifier is never the first modifier, 1 = always first, 2 = mixed.
func clientRule(rng *rand.Rand, name string, names []string, style int) rule {
	ru := rule{Kind: rkBlock, Name: name}
	if rng.IntN(3) == 0 {
		ru.Kind = rkAllow
	}
	// one or two of the profile's device names, permitted or negated
	perm := rng.Perm(len(names))
	ru.Clients = []string{names[perm[0]]}
	if rng.IntN(3) == 0 {
		ru.Clients = append(ru.Clients, names[perm[1]])
	}
	ru.ClientNeg = rng.IntN(4) == 0
	switch rng.IntN(4) {
	case 0:
		ru.ClientQuote = '\''
	case 1:
		ru.ClientQuote = '"'
	}
	withType := rng.IntN(3) != 0
	switch style {
	case 0:
		withType, ru.ClientFirst = true, false
	case 1:
		ru.ClientFirst = true
	default:
		ru.ClientFirst = rng.IntN(2) == 0
	}
	if withType {
		ru.Types, ru.Neg = parseTypes([]string{"A", "A", "AAAA", "A|AAAA", "~TXT", "~AAAA", "A|HTTPS"}[rng.IntN(7)])
	}
	return ru
}

func (mo *monitor) clientHistories(w *world, cfgs []*cfg, rng *rand.Rand) {
	r := mo.r
	db := stack.NewMapDB()
	type prof struct {
		style int
		devs  []*cfg // one model per device, same profile
	}
	var profs []*prof
	k := 0
	for _, c := range cfgs {
		if c.Anonymous || len(profs) == 3 {
			continue
		}
		style := len(profs) // 0: client never first, 1: always first, 2: mixed
		base := *c
		base.ProfID = fmt.Sprintf("c%dx%d", w.Idx, len(profs))
		base.ProfOn, base.DevOn, base.CustomOn, base.Group = true, true, true, 0
		perm := rng.Perm(len(deviceNames))
		names := []string{deviceNames[perm[0]], deviceNames[perm[1]], deviceNames[perm[2]]}
		cs := &source{ID: string(filter.IDCustom), Class: "custom"}
		for _, ru := range w.CustomTpl {
			if rng.IntN(3) == 0 {
				cs.Rules = append(cs.Rules, ru)
			}
		}
		for _, ni := range rng.Perm(len(w.Names))[:14] {
			name := w.Names[ni]
			cs.Rules = append(cs.Rules, clientRule(rng, name, names, style))
			switch rng.IntN(4) {
			case 0: // a second client rule of the opposite kind for another device
				ru := clientRule(rng, name, names, style)
				ru.Kind = rkAllow
				cs.Rules = append(cs.Rules, ru)
			case 1: // and a plain custom block rule that an allow-for-one-device rule overrides
				if !hasName(w.CustomTpl, name) {
					cs.Rules = append(cs.Rules, rule{Kind: rkBlock, Name: name})
				}
			}
		}
		rng.Shuffle(len(cs.Rules), func(i, j int) { cs.Rules[i], cs.Rules[j] = cs.Rules[j], cs.Rules[i] })
		base.Custom = cs
		p := &prof{style: style}
		var devices []*agd.Device
		for di, dn := range names {
			d := base
			d.DevID, d.DevName = fmt.Sprintf("k%dx%d", w.Idx, k), dn
			k++
			if err := d.realize(w); err != nil {
				r.Inconclusive("client histories: " + err.Error())
				return
			}
			if di > 0 {
				d.fconf = p.devs[0].fconf // one profile, one configuration value
			}
			p.devs = append(p.devs, &d)
			devices = append(devices, &agd.Device{ID: agd.DeviceID(d.DevID), Name: agd.DeviceName(dn),
				Auth: &agd.AuthSettings{PasswordHash: agdpasswd.AllowAuthenticator{}}, FilteringEnabled: true})
		}
		d0 := p.devs[0]
		db.Add(&agd.Profile{ID: agd.ProfileID(d0.ProfID), FilterConfig: d0.fconf.(*filter.ConfigClient), Access: access.EmptyProfile{},
			BlockingMode: d0.Mode.real(), Ratelimiter: agd.GlobalRatelimiter{}, FilteringEnabled: true,
			FilteredResponseTTL: time.Duration(d0.TTL) * time.Second, QueryLogEnabled: true}, devices...)
		profs = append(profs, p)
	}
	srv := stack.NewServer("dotc", agd.ProtoDoT, netip.MustParseAddrPort("192.0.2.1:853"), false)
	fg := &agd.FilteringGroup{ID: "fgc", FilterConfig: &filter.ConfigGroup{Parental: &filter.ConfigParental{},
		RuleList: &filter.ConfigRuleList{}, SafeBrowsing: &filter.ConfigSafeBrowsing{}}}
	grp := &agd.ServerGroup{DDR: stack.NewDDR(false), DeviceDomains: []string{"d.example"}, Name: "gc", FilteringGroup: fg.ID,
		Servers: []*agd.Server{srv}, ProfilesEnabled: true}
	st, err := stack.New(&stack.Options{ProfileDB: db, ServerGroups: []*agd.ServerGroup{grp},
		FilteringGroups: map[agd.FilteringGroupID]*agd.FilteringGroup{fg.ID: fg}, FilterStorage: w.storage,
		Upstream: upstreamFunc, Cloner: w.cloner, Messages: w.defMsgs})
	if err != nil {
		r.Inconclusive("client histories: stack construction failed: " + err.Error())
		return
	}
	styleName := []string{"client-never-first", "client-always-first", "client-mixed"}
	n := 0
	mo.keyPrefix = "client-history:"
	defer func() { mo.keyPrefix = "" }()
	for _, p := range profs {
		// (base, qtype) pairs for which the devices of the profile get different verdicts
		type cand struct {
			base string
			qt   uint16
		}
		var disc, rest []cand
		for _, base := range w.Names {
			for _, qt := range []uint16{dns.TypeA, dns.TypeAAAA, dns.TypeTXT} {
				seen := map[string]bool{}
				for _, d := range p.devs {
					x, _ := evalRequest(d.view(w), "c."+base, qt)
					seen[vkit.JSON(x)] = true
				}
				if len(seen) > 1 {
					disc = append(disc, cand{base, qt})
				} else if rng.IntN(20) == 0 {
					rest = append(rest, cand{base, qt})
				}
			}
		}
		rng.Shuffle(len(disc), func(i, j int) { disc[i], disc[j] = disc[j], disc[i] })
		if len(disc) > 8 {
			disc = disc[:8]
		}
		if len(rest) > 2 {
			rest = rest[:2]
		}
		for ci, cd := range append(disc, rest...) {
			order := rng.Perm(len(p.devs))
			// the same rule in both orders, each on a fresh host
			for rev := 0; rev < 2; rev++ {
				n++
				host := fmt.Sprintf("c%d.%s", n, cd.base)
				seq := append([]int{}, order...)
				if rev == 1 {
					for i, j := 0, len(seq)-1; i < j; i, j = i+1, j-1 {
						seq[i], seq[j] = seq[j], seq[i]
					}
				}
				seq = append(seq, seq[0])
				for step, di := range seq {
					mo.runProbe(w, p.devs[di], st, srv, grp, probe{QName: dns.Fqdn(host), Host: host, QType: cd.qt}, 4000+step)
					r.Bucket("client_history_steps", 1)
				}
				r.Bucket("client_histories", 1)
				if ci < len(disc) {
					r.Bucket("client_histories_discriminating", 1)
					r.Bucket("client_histories_discriminating_"+styleName[p.style], 1)
				}
			}
		}
	}
}
