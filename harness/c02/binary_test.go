package c02

import (
	"encoding/json"
	"fmt"
	"os"
	"os/exec"
	"path/filepath"
	"strings"
	"time"

	"github.com/AdguardTeam/AdGuardDNS/verif/vkit"
)

// Configured order of a filtering group's rule lists on the real binary.
//
// The other phases build filter.ConfigRuleList.IDs themselves; the conversion
// of filtering_groups[].rule_lists.ids of the file (internal/cmd) runs only in
// the real process.  This phase runs the binary of the tree under test (the C20
// bench, as a child `go test` of package c20, harness/c20/rulebin_test.go).
// The bench's filter index carries two extra lists that rewrite one host to
// two different addresses ($dnsrewrite=NOERROR;A;…); each case writes the IDs
// of the default group as one of four permutations (alphabetical order never
// equal to all of them) and asks for the host over plain DNS.  Oracle (statement:
// "a DNS-rewrite rule wins outright (… the shared lists in their configured
// order)"): the answer consists of exactly the address of whichever of the
// two lists comes first in the file.

type orderCase struct {
	IDs      []string `json:"rule_lists_ids"`
	Verdict  string   `json:"process_verdict"`
	Class    string   `json:"process_class,omitempty"`
	Answered bool     `json:"answered"`
	Rcode    int      `json:"rcode"`
	A        []string `json:"a_records"`
	Blocked  bool     `json:"base_list_still_blocks_its_host"`
	Note     string   `json:"note,omitempty"`
}

type orderReport struct {
	Error   string            `json:"error,omitempty"`
	Answers map[string]string `json:"answer_of_list"`
	Cases   []orderCase       `json:"cases"`
}

func binaryOrderMonitor(r *vkit.Run) {
	scratch := os.Getenv("VERIF_SCRATCH")
	if scratch == "" {
		scratch = os.TempDir()
	}
	dir, err := os.MkdirTemp(scratch, "c02bin-")
	if err != nil {
		r.Inconclusive("binary-order: " + err.Error())
		return
	}
	defer os.RemoveAll(dir)
	out := filepath.Join(dir, "order.json")
	args := []string{"test", "-tags", "verif", "-count=1", "-run", "^TestBinaryRuleListOrder$", "-timeout=600s"}
	if mf := os.Getenv("VERIF_MODFILE"); mf != "" {
		args = append(args, "-modfile="+mf)
	}
	args = append(args, "./c20")
	cmd := exec.Command("go", args...)
	cmd.Dir = ".." // the harness module
	cmd.Env = append(os.Environ(), "C20_ORDER_OUT="+out)
	t0 := time.Now()
	cout, cerr := cmd.CombinedOutput()
	r.Extra("binary-order_wall_s", time.Since(t0).Seconds())
	b, rerr := os.ReadFile(out)
	rep := orderReport{}
	if rerr != nil || json.Unmarshal(b, &rep) != nil {
		co := string(cout)
		if len(co) > 1500 {
			co = co[len(co)-1500:]
		}
		r.Sample(map[string]any{"binary-order_child_output": co, "err": fmt.Sprint(cerr)})
		r.Inconclusive("binary-order: the child run produced no report")
		return
	}
	if rep.Error != "" {
		r.Sample(map[string]any{"binary-order_error": rep.Error})
		e := rep.Error
		if len(e) > 300 {
			e = e[len(e)-300:]
		}
		r.Inconclusive("binary-order: " + e)
		return
	}
	for _, c := range rep.Cases {
		r.Bucket("binary-order_configurations_run", 1)
		class := "binary-order:" + strings.Join(c.IDs, ">")
		if c.Verdict != "accepted" || !c.Answered || !c.Blocked {
			// Whether the file is accepted and served is C20's question; a
			// group that does not even apply its base list decides nothing.
			r.Bucket("binary-order_configurations_not_decisive", 1)
			r.Eval(class, false)
			continue
		}
		want := ""
		for _, id := range c.IDs {
			if a, ok := rep.Answers[id]; ok {
				want = a
				break
			}
		}
		sorted := true
		for i := 1; i < len(c.IDs); i++ {
			if c.IDs[i-1] > c.IDs[i] {
				sorted = false
			}
		}
		r.Eval(class, true)
		if want == "" {
			continue
		}
		if c.Rcode != 0 || len(c.A) != 1 || c.A[0] != want {
			r.Violation("binary-order:rewrite-not-from-first-configured-list",
				fmt.Sprintf("filtering_groups[0].rule_lists.ids = %v: two of the lists rewrite the host; the answer must be %s (the first of them in the file), got rcode %d A %v", c.IDs, want, c.Rcode, c.A),
				map[string]any{"case": c, "answer_of_list": rep.Answers})
			continue
		}
		r.Bucket("binary-order_answers_from_first_configured_list", 1)
		if !sorted {
			r.Bucket("binary-order_answers_from_first_configured_list_ids_not_alphabetical", 1)
		}
	}
	if len(rep.Cases) > 0 {
		r.Sample(map[string]any{"binary-order_first_case": rep.Cases[0]})
	}
}
