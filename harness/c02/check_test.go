// Package c02 monitors property C02: the filtering verdict follows the rule
// precedence and the requester's blocking mode.
package c02

import (
	"context"
	"fmt"
	"math/rand/v2"
	"net/netip"
	"os"
	"sort"
	"strings"
	"testing"
	"time"

	"github.com/AdguardTeam/AdGuardDNS/internal/agd"
	"github.com/AdguardTeam/AdGuardDNS/internal/filter"
	"github.com/AdguardTeam/AdGuardDNS/verif/stack"
	"github.com/AdguardTeam/AdGuardDNS/verif/vkit"
	"github.com/miekg/dns"
)

// ---- observation helpers ----

func hasMarker(m *dns.Msg) (string, bool) {
	for _, sec := range [][]dns.RR{m.Answer, m.Ns, m.Extra} {
		for _, rr := range sec {
			switch rr := rr.(type) {
			case *dns.OPT:
				continue
			case *dns.A:
				if ip, ok := netip.AddrFromSlice(rr.A); ok && stack.IsUpstreamIP(ip) {
					return rr.String(), true
				}
			case *dns.AAAA:
				if ip, ok := netip.AddrFromSlice(rr.AAAA); ok && stack.IsUpstreamIP(ip) {
					return rr.String(), true
				}
			}
			if strings.Contains(strings.ToLower(rr.String()), "upstream-marker") {
				return rr.String(), true
			}
		}
	}
	return "", false
}

// ansSet renders the address answers as "A 1.2.3.4" strings, sorted.
func ansSet(ans []dns.RR) (ss []string) {
	for _, rr := range ans {
		switch rr := rr.(type) {
		case *dns.A:
			ip, _ := netip.AddrFromSlice(rr.A)
			ss = append(ss, "A "+ip.Unmap().String())
		case *dns.AAAA:
			ip, _ := netip.AddrFromSlice(rr.AAAA)
			ss = append(ss, "AAAA "+ip.String())
		default:
			ss = append(ss, dns.TypeToString[rr.Header().Rrtype]+" "+strings.TrimPrefix(rr.String(), rr.Header().String()))
		}
	}
	sort.Strings(ss)
	return ss
}

func eqStrings(a, b []string) bool {
	if len(a) != len(b) {
		return false
	}
	for i := range a {
		if a[i] != b[i] {
			return false
		}
	}
	return true
}

func contains(ss []string, s string) bool {
	for _, x := range ss {
		if x == s {
			return true
		}
	}
	return false
}

func qtClass(qt uint16) string {
	switch qt {
	case dns.TypeA:
		return "A"
	case dns.TypeAAAA:
		return "AAAA"
	case dns.TypeHTTPS:
		return "HTTPS"
	}
	return "other"
}

// ttlProblem checks that every synthesised record carries the requester's TTL.
func ttlProblem(m *dns.Msg, ttl uint32) string {
	for _, sec := range [][]dns.RR{m.Answer, m.Ns} {
		for _, rr := range sec {
			if rr.Header().Ttl != ttl {
				return fmt.Sprintf("record %q has TTL %d, requester's TTL is %d", rr.String(), rr.Header().Ttl, ttl)
			}
		}
	}
	return ""
}

// blockedShapeProblem: is m a blocked answer in the shape of mode for question
// q?  Returns "" if it is, else (sub-key, explanation).
func blockedShapeProblem(mode modeSpec, ttl uint32, q dns.Question, m *dns.Msg) (key, why string) {
	if mk, ok := hasMarker(m); ok {
		return "upstream-record", "blocked answer carries an upstream record: " + mk
	}
	wantRcode := dns.RcodeSuccess
	var want []string
	switch mode.Shape {
	case "nxdomain":
		wantRcode = dns.RcodeNameError
	case "refused":
		wantRcode = dns.RcodeRefused
	case "nullip":
		if q.Qtype == dns.TypeA {
			want = []string{"A 0.0.0.0"}
		} else if q.Qtype == dns.TypeAAAA {
			want = []string{"AAAA ::"}
		}
	default:
		if q.Qtype == dns.TypeA {
			for _, ip := range mode.V4 {
				want = append(want, "A "+ip.String())
			}
		} else if q.Qtype == dns.TypeAAAA {
			for _, ip := range mode.V6 {
				want = append(want, "AAAA "+ip.String())
			}
		}
		sort.Strings(want)
	}
	if m.Rcode != wantRcode {
		return "rcode", fmt.Sprintf("rcode %s, mode %s wants %s", dns.RcodeToString[m.Rcode], mode.Shape, dns.RcodeToString[wantRcode])
	}
	if got := ansSet(m.Answer); !eqStrings(got, want) {
		return "answers", fmt.Sprintf("answers %v, mode %s wants %v", got, mode.Shape, want)
	}
	for _, rr := range m.Answer {
		if !strings.EqualFold(rr.Header().Name, q.Name) {
			return "owner", fmt.Sprintf("answer owner %q is not the question name %q", rr.Header().Name, q.Name)
		}
	}
	if p := ttlProblem(m, ttl); p != "" {
		return "ttl", p
	}
	return "", ""
}

func observedOf(res filter.Result) map[string]any {
	switch r := res.(type) {
	case nil:
		return map[string]any{"kind": "none"}
	case *filter.ResultAllowed:
		return map[string]any{"kind": "allowed", "list": r.List, "rule": r.Rule}
	case *filter.ResultBlocked:
		return map[string]any{"kind": "blocked", "list": r.List, "rule": r.Rule}
	case *filter.ResultModifiedResponse:
		return map[string]any{"kind": "modresp", "list": r.List, "rule": r.Rule, "rcode": dns.RcodeToString[r.Msg.Rcode],
			"answer": rrStrings(r.Msg.Answer), "ns": rrStrings(r.Msg.Ns)}
	case *filter.ResultModifiedRequest:
		return map[string]any{"kind": "modreq", "list": r.List, "rule": r.Rule, "question": r.Msg.Question[0].Name}
	}
	return map[string]any{"kind": fmt.Sprintf("%T", res)}
}

// classOf maps an observed verdict to the matrix class of its deciding source.
func classOf(res filter.Result) string {
	if res == nil {
		return "none"
	}
	id, _ := res.MatchedRule()
	src := "list"
	switch id {
	case filter.IDCustom:
		src = "custom"
	case filter.IDBlockedService:
		src = "svc"
	case filter.IDSafeBrowsing:
		return "danger"
	case filter.IDAdultBlocking:
		return "adult"
	case filter.IDGeneralSafeSearch:
		return "ssgen"
	case filter.IDYoutubeSafeSearch:
		return "ssyt"
	case filter.IDNewRegDomains:
		return "newreg"
	}
	switch res.(type) {
	case *filter.ResultAllowed:
		return src + "-allow"
	case *filter.ResultBlocked:
		return src + "-block"
	}
	return src + "-rw"
}

// matchVerdict: does the observed verdict equal the expected alternative?
func matchVerdict(exp verdict, got filter.Result, c *cfg, q dns.Question) (ok bool, why string) {
	switch exp.Kind {
	case "none":
		return got == nil, "expected no verdict"
	case "allowed":
		r, is := got.(*filter.ResultAllowed)
		if !is {
			return false, "expected an allow verdict"
		}
		return contains(exp.IDs, string(r.List)), "allow verdict attributed to a list without a matching allow rule"
	case "blocked":
		r, is := got.(*filter.ResultBlocked)
		if !is {
			return false, "expected a block verdict"
		}
		if !contains(exp.IDs, string(r.List)) {
			return false, "block verdict attributed to a list without a matching block rule"
		}
		if r.List == filter.IDBlockedService && !contains(exp.Svcs, string(r.Rule)) {
			return false, "block verdict attributed to a service without a matching rule"
		}
		return true, ""
	case "modreq":
		r, is := got.(*filter.ResultModifiedRequest)
		if !is {
			return false, "expected a rewrite of the question name"
		}
		if string(r.List) != exp.IDs[0] {
			return false, "rewrite attributed to another list than the first one with a matching rewrite"
		}
		if len(r.Msg.Question) != 1 || !strings.EqualFold(r.Msg.Question[0].Name, dns.Fqdn(exp.Target)) || r.Msg.Question[0].Qtype != q.Qtype {
			return false, "rewritten question is not (target of the winning rule, original qtype)"
		}
		return true, ""
	case "modresp":
		r, is := got.(*filter.ResultModifiedResponse)
		if !is {
			return false, "expected a synthesised response"
		}
		if string(r.List) != exp.IDs[0] {
			return false, "rewrite attributed to another list than the first one with a matching rewrite"
		}
		if exp.Shape {
			if k, w := blockedShapeProblem(c.Mode, c.TTL, q, r.Msg); k != "" {
				return false, "synthesised response is not in the requester's blocked shape: " + w
			}
			return true, ""
		}
		if r.Msg.Rcode != exp.Rcode {
			return false, "synthesised response has another rcode than the winning rule asks for"
		}
		want := append([]string{}, exp.Answers...)
		sort.Strings(want)
		if gotA := ansSet(r.Msg.Answer); !eqStrings(gotA, want) {
			return false, fmt.Sprintf("synthesised answers %v, winning rule produces %v", gotA, want)
		}
		if mk, has := hasMarker(r.Msg); has {
			return false, "synthesised response carries an upstream record " + mk
		}
		if p := ttlProblem(r.Msg, c.TTL); p != "" {
			return false, p
		}
		return true, ""
	}
	return false, "bad expectation"
}

func kindsOf(alts []verdict) string {
	var ks []string
	for _, a := range alts {
		k := a.Kind
		if len(a.IDs) > 0 {
			k += "(" + classOfID(a.IDs[0], a.Kind) + ")"
		}
		ks = append(ks, k)
	}
	return strings.Join(ks, "|")
}

func classOfID(id, kind string) string {
	switch filter.ID(id) {
	case filter.IDCustom:
		return "custom"
	case filter.IDBlockedService:
		return "svc"
	case filter.IDSafeBrowsing:
		return "danger"
	case filter.IDAdultBlocking:
		return "adult"
	case filter.IDGeneralSafeSearch:
		return "ssgen"
	case filter.IDYoutubeSafeSearch:
		return "ssyt"
	case filter.IDNewRegDomains:
		return "newreg"
	}
	return "list"
}

// ---- probes ----

type probe struct {
	QName string `json:"qname"`
	Host  string `json:"host"`
	QType uint16 `json:"qtype"`
	EDNS  bool   `json:"edns"`
}

func genProbes(rng *rand.Rand, w *world, n int) (ps []probe) {
	order := rng.Perm(len(w.Names))
	for i := 0; i < n; i++ {
		var base string
		if i < len(order) {
			base = w.Names[order[i]]
		} else {
			base = w.Names[rng.IntN(len(w.Names))]
		}
		host := base
		switch rng.IntN(10) {
		case 0, 1, 2:
			host = "www." + base
		case 3:
			host = "a.b." + base
		case 4, 5, 6:
			if base >= w.Names[len(scenarios)] { // a noise name: ask for its listed four-label host
				host = "l4.s." + base
			}
		}
		qn := dns.Fqdn(host)
		if rng.IntN(8) == 0 {
			b := []byte(qn)
			for j := range b {
				if 'a' <= b[j] && b[j] <= 'z' && rng.IntN(2) == 0 {
					b[j] -= 'a' - 'A'
				}
			}
			qn = string(b)
		}
		qt := dns.TypeA
		switch x := rng.IntN(100); {
		case x < 42:
		case x < 72:
			qt = dns.TypeAAAA
		case x < 84:
			qt = dns.TypeHTTPS
		case x < 94:
			qt = dns.TypeTXT
		default:
			qt = dns.TypeMX
		}
		ps = append(ps, probe{QName: qn, Host: host, QType: qt, EDNS: rng.IntN(4) == 0})
	}
	return ps
}

func (p probe) msg(id uint16) *dns.Msg {
	m := stack.NewQuery(id, p.QName, p.QType, dns.ClassINET)
	if p.EDNS {
		m.SetEdns0(1232, false)
	}
	return m
}

// ---- the check ----

type monitor struct {
	r      *vkit.Run
	matrix map[string]int64
	// alias is set while a cache-alias history runs: caches are NOT cleared
	// between its steps and every request verdict is also compared with the
	// verdict of the cache-off twin storage.
	alias *aliasHist
	// keyPrefix is prepended to the violation keys of runProbe (delivery histories).
	keyPrefix string
}

func (mo *monitor) viol(key, what string, witness any) {
	mo.r.Violation(mo.keyPrefix+key, what, witness)
}

func (mo *monitor) pair(winner string, cands []string) (losers []string) {
	skipped := false
	for _, c := range cands {
		// hosts-style block rules count as block rules of their source
		c = strings.Replace(c, "-hosts", "-block", 1)
		if c == winner && !skipped {
			skipped = true
			continue
		}
		losers = append(losers, c)
		mo.matrix[winner+">"+c]++
	}
	return losers
}

func TestCheck(t *testing.T) {
	r := vkit.Start(t, "C02", "exploration")
	defer r.Finish()
	r.Rule("worlds of 3 shared rule lists + 3 blocked services + general/YouTube safe-search lists + 3 hash-prefix host lists generated from the " +
		"grammar (||d^, @@||d^, $dnstype, $dnsrewrite=ip|cname|REFUSED|NXDOMAIN, hosts-style) with ~50 forced overlap scenarios + noise, served over HTTP to a real " +
		"filterstorage.Default; per world 6 profile configurations (one per blocking shape) + 2 anonymous filtering-group configurations with random switches; " +
		"per configuration one probe per base name with random subdomain/case/qtype/EDNS; every probe is evaluated at Storage.ForConfig (request and response verdict) " +
		"and behind the full dnssvc stack; per cache-enabled world and configuration up to 10 cache-alias histories (fresh host asked for two qtypes congruent mod 256, " +
		"e.g. A/CAA/DLV, in both orders, no cache clearing, each step also compared with a cache-off twin storage); per world two delivery histories of three profiles each " +
		"(profiles streamed by an in-process gRPC backend through the real backendpb.ProfileStorage into a real profiledb.Default: full sync, probes, custom rules change, " +
		"delivered by an incremental / by a second full sync, same probes; the evaluator follows the rules sent last); per world three profiles with three named devices each " +
		"and custom rules limited by $client in every spelling (client first / after $dnstype / quoted / several / negated), two-device histories for the same (host, qtype) in both orders. distinct = (winner class, sorted loser classes, blocking shape, qtype class, level); non-trivial = at least one losing " +
		"candidate source matched the same probe (a precedence decision was actually made)")
	r.Assume("the safety filters (hash-prefix and safe-search) act on A, AAAA and HTTPS questions only (documented in hashprefix.isFilterable / safesearch.FilterRequest)")
	r.Assume("a hash-prefix filter matches a name when the name or one of its parent domains (names here have <= 4 labels) is listed; safe-search rules '|d^' match exactly d")
	r.Assume("$dnsrewrite=<ip> answers only questions of the address family of <ip>; other qtypes get an empty NOERROR answer (documented shorthand NOERROR;A|AAAA;<ip>)")
	r.Assume("where an allow rule of the profile's own rules and one of a shared list both match, or different records of one upstream answer get different verdicts, " +
		"the statement leaves the deciding rule open and either outcome is accepted (bucket ambiguous_*)")
	r.Assume("$client=A|B limits a custom rule to the devices named A or B, $client=~A to all devices but A (exact names, optional quotes); only the profile's own rules see the device name")
	r.Assume("hash-prefix result caches are cleared before every ordinary probe (their cross-requester behaviour is property C12); they are not cleared inside a cache-alias history")

	dir := os.Getenv("VERIF_SCRATCH")
	if dir == "" {
		dir = t.TempDir()
	}
	fx := newFixture()
	defer fx.srv.Close()
	mo := &monitor{r: r, matrix: map[string]int64{}}
	dl, dlErr := newDelivery()
	if dlErr != nil {
		r.Inconclusive("delivery: cannot start the in-process backend: " + dlErr.Error())
	} else {
		defer dl.stop()
	}

	nWorlds := r.N(30, 1000)
	nProbes := r.N(len(scenarios)+nNoiseNames+4, len(scenarios)+nNoiseNames+20)
	cfgIdx := 0
	for wi := 0; wi < nWorlds; wi++ {
		rng := r.Rand("world", wi)
		w := genWorld(rng, wi)
		ctx, cancel := context.WithTimeout(context.Background(), 2*time.Minute)
		err := w.build(ctx, fx, dir)
		cancel()
		if err != nil {
			// not a verdict of C02 (could be the environment): no verdict for this run
			r.Inconclusive(fmt.Sprintf("world %d: the real filter storage could not be built: %v", wi, err))
			continue
		}
		if es := w.errs.take(); len(es) > 0 {
			r.Bucket("errcoll_during_build", int64(len(es)))
			r.Extra("errcoll_example", es[0])
		}
		r.Bucket("worlds", 1)
		if w.Refresh {
			r.Bucket("worlds_refreshed_once_more", 1)
		}
		var cfgs []*cfg
		shapeOrder := rng.Perm(len(shapes))
		for k := 0; k < 6; k++ {
			cfgs = append(cfgs, genCfg(rng, w, cfgIdx, k, false, shapes[shapeOrder[k]]))
			cfgIdx++
		}
		for k := 0; k < 2; k++ {
			cfgs = append(cfgs, genCfg(rng, w, cfgIdx, k, true, ""))
			cfgIdx++
		}
		st, srvs, grps, err := buildStack(w, cfgs)
		if err != nil {
			r.Inconclusive(fmt.Sprintf("world %d: stack construction failed: %v", wi, err))
			continue
		}
		for _, c := range cfgs {
			r.Bucket("configs", 1)
			r.Bucket("configs_mode_"+c.Mode.Shape, 1)
			if c.Anonymous {
				r.Bucket("configs_anonymous", 1)
			} else if c.TTL <= 1 {
				r.Bucket(fmt.Sprintf("configs_ttl%d_%s", c.TTL, c.Mode.Shape), 1)
			}
			if !c.Anonymous && !(c.ProfOn && c.DevOn) {
				r.Bucket("configs_filtering_disabled", 1)
			}
			prng := r.Rand("probes", c.Idx)
			for pi, p := range genProbes(prng, w, nProbes) {
				mo.runProbe(w, c, st, srvs[c.Group], grps[c.Group], p, pi)
			}
		}
		mo.runAliasHistories(w, cfgs, st, srvs, grps, r.Rand("alias", wi))
		if dl != nil {
			mo.deliveryHistories(dl, w, cfgs, r.Rand("delivery", wi))
		}
		mo.clientHistories(w, cfgs, r.Rand("client", wi))
		if es := w.errs.take(); len(es) > 0 {
			r.Bucket("errcoll_during_probes", int64(len(es)))
			r.Extra("errcoll_example", es[0])
		}
	}
	r.Bucket("http_fetches", int64(fx.totalHits()))
	r.Extra("winner_loser_matrix", mo.matrix)
	for k, v := range mo.matrix {
		r.Bucket("pair:"+k, v)
	}

	binaryOrderMonitor(r)
	r.Require("binary-order_answers_from_first_configured_list", 2)
	r.Require("binary-order_answers_from_first_configured_list_ids_not_alphabetical", 1)
	r.Require("worlds", int64(nWorlds))
	r.Require("configs", int64(nWorlds*8))
	for _, s := range shapes {
		r.Require("configs_mode_"+s, 8)
	}
	for _, s := range shapes {
		for _, ttl := range []string{"ttl0", "ttl1"} {
			r.Require("configs_"+ttl+"_"+s, 5)
			r.Require("stack_blocked_"+ttl+"_"+s, 15)
		}
	}
	r.Require("client_histories_discriminating_client-never-first", int64(nWorlds*4))
	r.Require("client_histories_discriminating_client-always-first", int64(nWorlds*4))
	r.Require("client_histories_discriminating_client-mixed", int64(nWorlds*4))
	r.Require("safety_hit_on_listed_four_label_host", int64(nWorlds))
	r.Require("delivery_sync_update_by_full", int64(nWorlds))
	r.Require("delivery_sync_update_by_incremental", int64(nWorlds))
	r.Require("delivery_discriminating_probes_updated-by-full-sync", int64(nWorlds*6))
	r.Require("delivery_discriminating_probes_updated-by-incremental-sync", int64(nWorlds*6))
	r.Require("alias_histories_discriminating", int64(nWorlds*3))
	r.Require("alias_histories_discriminating_shared_list_or_service", int64(nWorlds*2))
	r.Require("alias_twin_comparisons", int64(nWorlds*9))
	r.Require("configs_anonymous", 20)
	r.Require("anon_group_two_rewriting_lists_configured_order_not_sorted", int64(nWorlds/2))
	r.Require("configs_filtering_disabled", 4)
	r.Require("stack_disabled_passthrough", 100)
	r.Require("stack_blocked_ok", 400)
	r.Require("stack_synth_ok", 150)
	r.Require("stack_cname_ok", 150)
	r.Require("stack_pass_ok", 400)
	r.Require("resp_verdict_blocked", 40)
	for _, pr := range requiredPairs {
		r.Require("pair:"+pr, 6)
	}
}

// ---- cache-alias histories ----
//
// The statement quantifies over ALL qtypes.  The rule-list, blocked-service,
// safe-search and hash-prefix filters keep result caches keyed by (host, qtype,
// class); a question must get the verdict of ITS qtype whatever was asked for
// the same host before.  Each history asks one fresh host (never used by the
// ordinary probes) for two qtypes that are congruent modulo 256 (and so differ
// only in the high byte), in both orders, then the first one again, without
// clearing any cache in between; every step is checked against the evaluator
// and against the cache-off twin storage.

type aliasHist struct {
	Order string   `json:"order"`
	Host  string   `json:"host"`
	Steps []string `json:"steps_so_far"`
}

// aliasPairs: a common qtype and qtypes equal to it modulo 256 (CAA = 257,
// DLV = 32769; the others are unassigned type codes, which a client may send).
var aliasPairs = [][2]uint16{
	{dns.TypeA, dns.TypeCAA}, {dns.TypeA, dns.TypeDLV}, {dns.TypeCAA, dns.TypeDLV},
	{dns.TypeAAAA, dns.TypeAAAA + 256}, {dns.TypeAAAA, dns.TypeAAAA + 32768},
	{dns.TypeTXT, dns.TypeTXT + 256}, {dns.TypeHTTPS, dns.TypeHTTPS + 256}, {dns.TypeMX, dns.TypeMX + 512},
}

func (mo *monitor) runAliasHistories(w *world, cfgs []*cfg, st *stack.Stack, srvs []*agd.Server, grps []*agd.ServerGroup, rng *rand.Rand) {
	r := mo.r
	if !w.CacheOn || w.ref == nil {
		r.Bucket("alias_worlds_skipped_cache_off", 1)
		return
	}
	type cand struct {
		base   string
		a, b   uint16
		shared bool
	}
	n := 0
	for _, c := range cfgs {
		v := c.view(w)
		if !v.Filtering || c.msgs == nil {
			continue
		}
		// the view without the (uncached) custom rules: does a cached source decide differently for the two qtypes?
		vs := *v
		vs.Rules = nil
		for _, s := range v.Rules {
			if s.Class != "custom" {
				vs.Rules = append(vs.Rules, s)
			}
		}
		var disc, rest []cand
		for _, base := range w.Names {
			for _, pr := range aliasPairs {
				for _, o := range [][2]uint16{{pr[0], pr[1]}, {pr[1], pr[0]}} {
					h := "q." + base
					x, _ := evalRequest(v, h, o[0])
					y, _ := evalRequest(v, h, o[1])
					if vkit.JSON(x) == vkit.JSON(y) {
						rest = append(rest, cand{base, o[0], o[1], false})
						continue
					}
					xs, _ := evalRequest(&vs, h, o[0])
					ys, _ := evalRequest(&vs, h, o[1])
					disc = append(disc, cand{base, o[0], o[1], vkit.JSON(xs) != vkit.JSON(ys)})
				}
			}
		}
		rng.Shuffle(len(disc), func(i, j int) { disc[i], disc[j] = disc[j], disc[i] })
		rng.Shuffle(len(rest), func(i, j int) { rest[i], rest[j] = rest[j], rest[i] })
		// prefer the histories in which a cached (shared) source makes the difference
		var pick []cand
		for _, pass := range []bool{true, false} {
			for _, d := range disc {
				if d.shared == pass && len(pick) < 8 {
					pick = append(pick, d)
				}
			}
		}
		nd := len(pick)
		if len(rest) > 2 {
			rest = rest[:2]
		}
		pick = append(pick, rest...)
		for i, d := range pick {
			n++
			host := fmt.Sprintf("q%d.%s", n, d.base)
			h := &aliasHist{Order: dns.Type(d.a).String() + "-then-" + dns.Type(d.b).String(), Host: host}
			mo.alias = h
			for step, qt := range []uint16{d.a, d.b, d.a} {
				h.Steps = append(h.Steps, dns.Type(qt).String())
				mo.runProbe(w, c, st, srvs[c.Group], grps[c.Group], probe{QName: dns.Fqdn(host), Host: host, QType: qt}, 2000+step)
				r.Bucket("alias_steps", 1)
			}
			mo.alias = nil
			r.Bucket("alias_histories", 1)
			if i < nd {
				r.Bucket("alias_histories_discriminating", 1)
				if d.shared {
					r.Bucket("alias_histories_discriminating_shared_list_or_service", 1)
				}
			}
		}
	}
}

// requiredPairs are the winner>loser pairs the statement is about.
var requiredPairs = []string{
	"custom-rw>list-rw", "list-rw>list-rw", "custom-rw>list-block", "list-rw>list-allow", "list-rw>list-block", "list-rw>custom-allow",
	"list-rw>danger", "list-rw>adult", "list-rw>ssgen",
	"custom-allow>list-block", "list-allow>custom-block", "list-allow>svc-block", "list-allow>list-block",
	"custom-allow>danger", "custom-allow>adult", "custom-allow>ssgen", "custom-allow>ssyt", "custom-allow>newreg",
	"danger>list-allow", "adult>list-allow", "ssgen>list-allow", "ssyt>list-allow",
	"list-block>danger", "list-block>adult", "custom-block>ssgen", "svc-block>newreg",
	"danger>adult", "danger>newreg", "danger>ssyt", "adult>ssgen", "adult>newreg", "ssgen>ssyt", "ssgen>newreg", "ssyt>newreg",
	"list-allow>resp-block", "custom-allow>resp-block", "list-block>resp-block", "custom-rw>resp-block", "danger>resp-block",
	"resp-allow>resp-block", "resp-block>resp-block",
}

func buildStack(w *world, cfgs []*cfg) (*stack.Stack, []*agd.Server, []*agd.ServerGroup, error) {
	db := stack.NewMapDB()
	fgs := map[agd.FilteringGroupID]*agd.FilteringGroup{}
	var srvs []*agd.Server
	var grps []*agd.ServerGroup
	for _, c := range cfgs {
		if err := c.realize(w); err != nil {
			return nil, nil, nil, err
		}
		if c.Anonymous {
			id := agd.FilteringGroupID(fmt.Sprintf("fg%d", c.Group))
			fgs[id] = &agd.FilteringGroup{ID: id, FilterConfig: c.fconf.(*filter.ConfigGroup)}
			addr := netip.AddrPortFrom(netip.AddrFrom4([4]byte{192, 0, 2, byte(1 + c.Group)}), 853)
			srv := stack.NewServer(fmt.Sprintf("dot%d", c.Group), agd.ProtoDoT, addr, false)
			srvs = append(srvs, srv)
			grps = append(grps, &agd.ServerGroup{DDR: stack.NewDDR(false), DeviceDomains: []string{"d.example"},
				Name: agd.ServerGroupName(fmt.Sprintf("g%d", c.Group)), FilteringGroup: id, Servers: []*agd.Server{srv}, ProfilesEnabled: true})
		} else {
			db.Add(c.profile())
		}
	}
	st, err := stack.New(&stack.Options{ProfileDB: db, ServerGroups: grps, FilteringGroups: fgs, FilterStorage: w.storage,
		Upstream: upstreamFunc, Cloner: w.cloner, Messages: w.defMsgs})
	return st, srvs, grps, err
}

var remote = netip.MustParseAddrPort("203.0.113.77:4444")

func (mo *monitor) runProbe(w *world, c *cfg, st *stack.Stack, srv *agd.Server, grp *agd.ServerGroup, p probe, pi int) {
	r := mo.r
	v := c.view(w)
	q := dns.Question{Name: p.QName, Qtype: p.QType, Qclass: dns.ClassINET}
	witness := func(extra map[string]any) map[string]any {
		wt := map[string]any{"world": w.Idx, "config": c, "probe": p, "probe_index": pi}
		if c.Custom != nil {
			var cr []string
			for _, ru := range c.Custom.Rules {
				if ru.nameMatches(p.Host) || isTargetRule(ru, p) {
					cr = append(cr, ru.text())
				}
			}
			wt["custom_rules_touching_probe"] = cr
		}
		lr := map[string][]string{}
		for _, s := range append(append([]*source{}, w.Lists...), w.Svcs...) {
			for _, ru := range s.Rules {
				if ru.nameMatches(p.Host) || isTargetRule(ru, p) {
					lr[s.ID+"/"+s.Svc] = append(lr[s.ID+"/"+s.Svc], ru.text())
				}
			}
		}
		wt["list_rules_touching_probe"] = lr
		sf := map[string]string{}
		for _, cl := range safetyOrder {
			if repl, ok := w.Safety[cl].match(p.Host); ok {
				sf[cl] = repl
			}
		}
		wt["safety_lists_matching"] = sf
		wt["upstream_answer"] = rrStrings(upstreamAnswer(p.QName, p.QType))
		if mo.alias != nil {
			wt["cache_alias_history"] = mo.alias
		}
		for k, x := range extra {
			wt[k] = x
		}
		return wt
	}
	defer func() {
		if pn := recover(); pn != nil {
			mo.viol("panic:probe", fmt.Sprintf("panic while filtering a legal question: %v", pn), witness(nil))
		}
	}()

	reqAlts, reqCands := evalRequest(v, p.Host, p.QType)
	upAns := upstreamAnswer(p.QName, p.QType)
	respAlts, respCands := evalResponse(v, targetsOf(upAns))
	if len(reqAlts) > 1 {
		r.Bucket("ambiguous_custom_and_shared_allow", 1)
	}
	if c.Anonymous && v.Filtering && firstRewriterNotLeastID(v, p.Host) {
		r.Bucket("anon_group_two_rewriting_lists_configured_order_not_sorted", 1)
	}
	if len(respAlts) > 1 {
		r.Bucket("ambiguous_mixed_answer_records", 1)
	}

	// (1) verdict at the storage boundary, only meaningful when filtering is on
	// (the on/off switch lives in the main middleware).
	ctx, cancel := context.WithTimeout(context.Background(), 30*time.Second)
	defer cancel()
	var reqRes filter.Result
	var reqWinner string
	if v.Filtering && c.msgs == nil {
		r.Bucket("direct_skipped_constructor_refused", 1)
		mo.viol("verdict:profile-constructor-refused", "dnsmsg.NewConstructor refuses the blocking mode / filtered-response TTL of a legal profile: "+c.msgsErr,
			witness(nil))
	}
	if v.Filtering && c.msgs != nil {
		if mo.alias == nil {
			w.hpCache.clearAll()
		}
		f := w.storage.ForConfig(ctx, c.fconf)
		var err error
		reqRes, err = f.FilterRequest(ctx, &filter.Request{DNS: p.msg(uint16(pi + 1)), Messages: c.msgs, RemoteIP: remote.Addr(),
			Host: p.Host, QType: p.QType, QClass: dns.ClassINET, ClientName: c.DevName})
		if err != nil {
			mo.viol("verdict:req:error", "FilterRequest returned an error for a legal question: "+err.Error(), witness(nil))
			return
		}
		if mo.alias != nil && w.ref != nil {
			// reference: the same question put to the cache-off twin
			w.refHP.clearAll()
			refRes, rerr := w.ref.ForConfig(ctx, c.fconf).FilterRequest(ctx, &filter.Request{DNS: p.msg(uint16(pi + 1)), Messages: c.msgs,
				RemoteIP: remote.Addr(), Host: p.Host, QType: p.QType, QClass: dns.ClassINET, ClientName: c.DevName})
			r.Bucket("alias_twin_comparisons", 1)
			if rerr != nil || vkit.JSON(observedOf(refRes)) != vkit.JSON(observedOf(reqRes)) {
				mo.viol("cache-alias:req-verdict-differs-from-cache-off-twin:"+mo.alias.Order,
					"after an earlier question for the same host whose qtype is congruent modulo 256, the storage with result caches on gives another "+
						"request verdict than the same storage with the rule-list result caches off",
					witness(map[string]any{"observed_cache_on": observedOf(reqRes), "observed_cache_off": observedOf(refRes), "expected": reqAlts}))
			}
		}
		matched := -1
		why := ""
		for i, a := range reqAlts {
			ok, wy := matchVerdict(a, reqRes, c, q)
			if ok {
				matched = i
				break
			}
			if why == "" || a.Kind == observedOf(reqRes)["kind"] {
				why = wy
			}
		}
		if matched < 0 {
			mo.viol(fmt.Sprintf("verdict:req:expected=%s:observed=%s", kindsOf(reqAlts), classOf(reqRes)),
				"request verdict at Storage.ForConfig differs from the documented precedence: "+why,
				witness(map[string]any{"expected": reqAlts, "observed": observedOf(reqRes), "candidates": reqCands}))
			return
		}
		reqWinner = classOf(reqRes)
		if strings.HasPrefix(p.Host, "l4.s.") && (reqWinner == "danger" || reqWinner == "adult" || reqWinner == "newreg") {
			r.Bucket("safety_hit_on_listed_four_label_host", 1)
		}
		losers := []string{}
		if reqWinner != "none" {
			losers = mo.pair(reqWinner, reqCands)
		}
		r.Bucket("req_verdict_"+reqAlts[matched].Kind, 1)
		sort.Strings(losers)
		r.Eval(fmt.Sprintf("req/%s>%s/%s/%s", reqWinner, strings.Join(uniq(losers), ","), c.Mode.Shape, qtClass(p.QType)), len(losers) > 0)

		// response verdict on the upstream answer
		resp := &dns.Msg{}
		resp.SetReply(p.msg(uint16(pi + 1)))
		resp.Answer = upstreamAnswer(p.QName, p.QType)
		respRes, err := f.FilterResponse(ctx, &filter.Response{DNS: resp, RemoteIP: remote.Addr(), ClientName: c.DevName})
		if err != nil {
			mo.viol("verdict:resp:error", "FilterResponse returned an error: "+err.Error(), witness(nil))
			return
		}
		ok := false
		for _, a := range respAlts {
			if m, _ := matchVerdict(a, respRes, c, q); m {
				ok = true
			}
		}
		if !ok {
			mo.viol(fmt.Sprintf("verdict:resp:expected=%s:observed=%s", kindsOf(respAlts), classOf(respRes)),
				"response verdict at Storage.ForConfig differs from matching the answer's A/AAAA/CNAME targets against the lists (allow beats block)",
				witness(map[string]any{"expected": respAlts, "observed": observedOf(respRes), "candidates": respCands}))
			return
		}
		switch rr := respRes.(type) {
		case *filter.ResultBlocked:
			r.Bucket("resp_verdict_blocked", 1)
			r.Bucket("resp_verdict_blocked_"+qtClass(p.QType), 1)
			if strings.Contains(string(rr.Rule), "upstream-marker") {
				r.Bucket("resp_verdict_blocked_by_cname_target", 1)
			}
			losers := mo.pair("resp-block", respCands)
			r.Eval(fmt.Sprintf("resp/resp-block>%s/%s", strings.Join(uniq(losers), ","), qtClass(p.QType)), len(losers) > 0)
		case *filter.ResultAllowed:
			r.Bucket("resp_verdict_allowed", 1)
			losers := mo.pair("resp-allow", respCands)
			r.Eval(fmt.Sprintf("resp/resp-allow>%s/%s", strings.Join(uniq(losers), ","), qtClass(p.QType)), len(losers) > 0)
		}
	}

	// (2) the message written behind the full stack for this requester.
	if mo.alias == nil {
		w.hpCache.clearAll()
	}
	sreq := &stack.Request{Server: srv, Group: grp, Msg: p.msg(uint16(1000 + pi)), Remote: remote,
		Local: netip.AddrPortFrom(netip.AddrFrom4([4]byte{192, 0, 2, byte(1 + c.Group)}), 853)}
	if !c.Anonymous {
		sreq.TLSServerName = c.DevID + ".d.example"
	}
	out := st.Serve(sreq)
	defer st.Forget(out)
	if out.Panic != nil {
		mo.viol("panic:stack", fmt.Sprintf("panic in the stack for a legal question: %v", out.Panic), witness(nil))
		return
	}
	if out.Err != nil || len(out.Responses) != 1 {
		mo.viol("stack:no-single-response", fmt.Sprintf("stack wrote %d responses, err=%v", len(out.Responses), out.Err), witness(nil))
		return
	}
	got := out.Resp()
	obs := map[string]any{"rcode": dns.RcodeToString[got.Rcode], "answer": rrStrings(got.Answer), "ns": rrStrings(got.Ns),
		"upstream_questions": upstreamQuestions(out.Trace)}
	// the requester must be who we think it is, else the probe says nothing
	if len(out.Trace.UpstreamRI) > 0 {
		ri := out.Trace.UpstreamRI[0]
		if string(ri.ProfileID) != c.ProfID || string(ri.DeviceID) != c.DevID {
			r.Bucket("identity_mismatch", 1)
			r.Inconclusive(fmt.Sprintf("requester identity mismatch: want %q/%q got %q/%q", c.ProfID, c.DevID, ri.ProfileID, ri.DeviceID))
			return
		}
	}
	// errors reported to the error collector while serving a legal requester
	if es := out.Trace.Errors; len(es) > 0 {
		r.Bucket("stack_errcoll_errors", int64(len(es)))
		obs["errors_collected"] = es
		for _, e := range es {
			if strings.Contains(e, "creating constructor for profile") {
				mo.viol("stack:profile-constructor-error", "the per-profile message constructor could not be created for a legal profile, "+
					"so the requester is served with the server-wide blocking mode and TTL instead of its own: "+e,
					witness(map[string]any{"observed": obs}))
			}
		}
	}
	if len(got.Question) != 1 || got.Question[0] != q || got.Id != uint16(1000+pi) {
		mo.viol("stack:question-or-id", "response does not carry the original question and ID", witness(map[string]any{"observed": obs, "question": got.Question}))
		return
	}

	// acceptable final outcomes
	type final struct {
		Kind   string // pass blocked synth cname
		V      verdict
		Winner string
	}
	var finals []final
	for _, a := range reqAlts {
		switch a.Kind {
		case "none":
			for _, b := range respAlts {
				if b.Kind == "blocked" {
					finals = append(finals, final{"blocked", b, "resp-block"})
				} else {
					finals = append(finals, final{"pass", b, "resp-" + b.Kind})
				}
			}
		case "allowed":
			finals = append(finals, final{"pass", a, ""})
		case "blocked":
			finals = append(finals, final{"blocked", a, ""})
		case "modreq":
			finals = append(finals, final{"cname", a, ""})
		case "modresp":
			if a.Shape {
				finals = append(finals, final{"blocked", a, ""})
			} else {
				finals = append(finals, final{"synth", a, ""})
			}
		}
	}
	problems := []string{}
	var hit *final
	subkey := ""
	for i := range finals {
		fn := &finals[i]
		k, why := finalProblem(fn.Kind, fn.V, c, q, p, got, out.Trace)
		if k == "" {
			hit = fn
			break
		}
		problems = append(problems, fn.Kind+": "+why)
		if subkey == "" {
			subkey = fn.Kind + ":" + k
		}
	}
	if hit == nil {
		var want []string
		for _, fn := range finals {
			want = append(want, fn.Kind)
		}
		key := fmt.Sprintf("stack:want=%s:problem=%s", strings.Join(uniq(want), "|"), subkey)
		if strings.HasPrefix(subkey, "blocked:") {
			key += ":mode=" + c.Mode.Shape + ":qtype=" + qtClass(p.QType)
		}
		mo.viol(key, "message written behind the full stack is not what the documented precedence and the requester's blocking mode give: "+
			strings.Join(problems, " / "),
			witness(map[string]any{"expected_request_verdicts": reqAlts, "expected_response_verdicts": respAlts, "observed": obs}))
		return
	}
	r.Bucket("stack_"+hit.Kind+"_ok", 1)
	if !v.Filtering {
		r.Bucket("stack_disabled_passthrough", 1)
		if out.Trace.FilterRequests > 0 {
			// ForConfig(nil) gives filter.Empty; the recorder still counts the call.
			r.Bucket("stack_disabled_filter_calls", 1)
		}
		r.Eval(fmt.Sprintf("stack/disabled/%v/%v/%s", c.ProfOn, c.DevOn, qtClass(p.QType)), len(reqCandsIfOn(w, c, p)) > 0)
		return
	}
	if hit.Kind == "blocked" {
		r.Bucket("stack_blocked_"+c.Mode.Shape+"_"+qtClass(p.QType), 1)
		if !c.Anonymous && c.TTL <= 1 {
			r.Bucket(fmt.Sprintf("stack_blocked_ttl%d_%s", c.TTL, c.Mode.Shape), 1)
		}
	}
	// request verdict over response verdict
	losers := []string{}
	if reqWinner != "none" && reqWinner != "" {
		for _, rc := range uniq(respCands) {
			mo.matrix[reqWinner+">"+rc]++
			losers = append(losers, rc)
		}
	}
	anon := "profile"
	if c.Anonymous {
		anon = "anonymous"
	}
	winner := reqWinner
	if hit.Winner != "" && reqWinner == "none" {
		winner = hit.Winner
	}
	r.Eval(fmt.Sprintf("stack/%s/%s>%s/%s/%s/%s", hit.Kind, winner, strings.Join(append(uniq(mapHosts(reqCands)), losers...), ","), c.Mode.Shape, qtClass(p.QType), anon),
		len(losers) > 0 || len(reqCands) > 1)
	if mo.r.BucketGet("samples_taken") < 6 && (len(reqCands) > 1 || len(losers) > 0) && (pi%7 == 3) {
		r.Bucket("samples_taken", 1)
		r.Sample(witness(map[string]any{"expected_request_verdicts": reqAlts, "observed_request_verdict": observedOf(reqRes), "observed_message": obs}))
	}
}

// firstRewriterNotLeastID reports whether at least two shared lists of the view
// carry a DNS-rewrite rule with different values for host and the list that is
// configured first among them is not the one with the smallest ID, i.e. whether
// "configured order" and "sorted order" give different answers for host.
func firstRewriterNotLeastID(v *view, host string) bool {
	var first, least, firstVal, leastVal string
	n := 0
	for _, s := range v.Rules {
		if s.Class == "custom" {
			continue
		}
		ru := s.rewriteFor(host)
		if ru == nil {
			continue
		}
		n++
		if first == "" {
			first, firstVal = s.ID, ru.Val
		}
		if least == "" || s.ID < least {
			least, leastVal = s.ID, ru.Val
		}
	}
	return n >= 2 && first != least && firstVal != leastVal
}

func mapHosts(cs []string) (out []string) {
	for _, c := range cs {
		out = append(out, strings.Replace(c, "-hosts", "-block", 1))
	}
	return out
}

func reqCandsIfOn(w *world, c *cfg, p probe) []string {
	cc := *c
	cc.ProfOn, cc.DevOn = true, true
	_, cands := evalRequest(cc.view(w), p.Host, p.QType)
	return cands
}

func isTargetRule(ru rule, p probe) bool {
	for _, t := range targetsOf(upstreamAnswer(p.QName, p.QType)) {
		if ru.nameMatches(t.Host) {
			return true
		}
	}
	return false
}

func upstreamQuestions(tr *stack.Trace) (qs []string) {
	for _, m := range tr.UpstreamReqs {
		if len(m.Question) == 1 {
			qs = append(qs, m.Question[0].Name+" "+dns.TypeToString[m.Question[0].Qtype])
		}
	}
	return qs
}

func uniq(ss []string) (out []string) {
	seen := map[string]bool{}
	for _, s := range ss {
		if !seen[s] {
			seen[s] = true
			out = append(out, s)
		}
	}
	sort.Strings(out)
	return out
}

// finalProblem checks the written message against one acceptable outcome.
func finalProblem(kind string, v verdict, c *cfg, q dns.Question, p probe, got *dns.Msg, tr *stack.Trace) (key, why string) {
	switch kind {
	case "pass":
		want := upstreamAnswer(p.QName, p.QType)
		if !eqStrings(rrStrings(got.Answer), rrStrings(want)) || got.Rcode != dns.RcodeSuccess {
			return "not-upstream-answer", "the answer is not the upstream answer for the question"
		}
		if ns := upstreamAuthority(p.QName, p.QType); len(ns) > 0 && !eqStrings(rrStrings(got.Ns), rrStrings(ns)) {
			return "not-upstream-answer", "the authority section is not the upstream one (the question was not passed through)"
		}
		return "", ""
	case "blocked":
		return blockedShapeProblem(c.Mode, c.TTL, q, got)
	case "synth":
		if mk, has := hasMarker(got); has {
			return "upstream-record", "rewritten answer carries an upstream record " + mk
		}
		if got.Rcode != v.Rcode {
			return "rcode", fmt.Sprintf("rcode %s, winning rewrite wants %s", dns.RcodeToString[got.Rcode], dns.RcodeToString[v.Rcode])
		}
		want := append([]string{}, v.Answers...)
		sort.Strings(want)
		if ga := ansSet(got.Answer); !eqStrings(ga, want) {
			return "answers", fmt.Sprintf("answers %v, winning rewrite produces %v", ga, want)
		}
		if pr := ttlProblem(got, c.TTL); pr != "" {
			return "ttl", pr
		}
		return "", ""
	case "cname":
		tq := upstreamQuestions(tr)
		wantQ := dns.Fqdn(v.Target) + " " + dns.TypeToString[p.QType]
		if len(tq) != 1 || !strings.EqualFold(tq[0], wantQ) {
			return "upstream-question", fmt.Sprintf("upstream was asked %v, the winning rewrite wants %q", tq, wantQ)
		}
		if len(got.Answer) == 0 {
			return "no-cname", "no CNAME to the rewrite target in the answer"
		}
		cn, ok := got.Answer[0].(*dns.CNAME)
		if !ok || !strings.EqualFold(cn.Target, dns.Fqdn(v.Target)) || !strings.EqualFold(cn.Hdr.Name, q.Name) {
			return "no-cname", "first answer is not a CNAME from the question name to the rewrite target"
		}
		if cn.Hdr.Ttl != c.TTL {
			return "ttl", fmt.Sprintf("CNAME TTL %d, requester's TTL %d", cn.Hdr.Ttl, c.TTL)
		}
		if want := rrStrings(upstreamAnswer(dns.Fqdn(v.Target), p.QType)); !eqStrings(rrStrings(got.Answer[1:]), want) {
			return "tail", "records after the CNAME are not the upstream answer for the rewrite target"
		}
		return "", ""
	}
	return "bad-kind", kind
}
