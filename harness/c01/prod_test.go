package c01

import (
	"context"
	"errors"
	"fmt"
	"net/netip"
	"sort"
	"strings"
	"sync"
	"time"

	"github.com/AdguardTeam/AdGuardDNS/internal/agd"
	"github.com/AdguardTeam/AdGuardDNS/internal/dnsserver"
	"github.com/AdguardTeam/AdGuardDNS/internal/dnssvc"
	"github.com/AdguardTeam/AdGuardDNS/internal/filter"
	"github.com/AdguardTeam/AdGuardDNS/verif/stack"
	"github.com/AdguardTeam/AdGuardDNS/verif/tbench"
	"github.com/miekg/dns"
)

// Labels that script the upstream of the production pipeline.
const (
	labelUpFail = "upfail" // the upstream exchange fails
	labelUpNX   = "upnx"   // the upstream answers NXDOMAIN
	labelUpOK   = "upok"   // the upstream answers
)

var errUpstream = errors.New("c01: scripted upstream failure")

// prodUpstream is the scripted upstream: a pure function of the question.
func prodUpstream(ctx context.Context, req *dns.Msg, ri *agd.RequestInfo) (resp *dns.Msg, err error) {
	if err = ctx.Err(); err != nil {
		// Like the real forwarder, do not work for a request whose time is up.
		return nil, err
	}

	switch strings.ToLower(firstLabel(req.Question[0].Name)) {
	case labelUpFail:
		return nil, errUpstream
	case labelUpNX:
		resp = (&dns.Msg{}).SetRcode(req, dns.RcodeNameError)
		resp.RecursionAvailable = true
		resp.Ns = append(resp.Ns, hRR("prod.test.", 8, 60))

		return resp, nil
	default:
		return stack.DefaultUpstream(ctx, req, ri)
	}
}

// prodCtxTimeout is the handle timeout of the production benches: dnssvc gives
// every request a context with the configured HandleTimeout (and a request
// ID), and so does prodContext.
const prodCtxTimeout = time.Second

// prodContext is what dnssvc's unexported context constructor does.
type prodContext struct{}

// New implements the [dnsserver.ContextConstructor] interface for prodContext.
func (prodContext) New() (ctx context.Context, cancel context.CancelFunc) {
	ctx, cancel = context.WithTimeout(context.Background(), prodCtxTimeout)

	return agd.WithRequestID(ctx, agd.NewRequestID()), cancel
}

// prodForm is one EDNS shape of the production corpus.
type prodForm struct {
	opt *tbench.OPTSpec
	tag string
}

func ecs(data ...byte) tbench.Option { return tbench.Option{Code: tbench.OptSubnet, Data: data} }

func prodForms() (forms []prodForm) {
	o := func(tag string, opts ...tbench.Option) prodForm {
		return prodForm{tag: tag, opt: &tbench.OPTSpec{UDPSize: 1232, Options: opts}}
	}

	validV4 := ecs(0, 1, 24, 0, 192, 0, 2)

	return []prodForm{
		{tag: "no-edns"},
		o("edns-plain"),
		{tag: "edns-do", opt: &tbench.OPTSpec{UDPSize: 4096, DO: true}},
		o("ecs-valid-v4", validV4),
		o("ecs-valid-v6", ecs(0, 2, 56, 0, 0x20, 0x01, 0x0d, 0xb8, 0, 0, 1)),
		o("ecs-zero-prefix", ecs(0, 1, 0, 0)),
		o("ecs-bits-beyond-prefix", ecs(0, 1, 22, 0, 1, 2, 3)),
		o("ecs-address-longer-than-prefix", ecs(0, 1, 16, 0, 1, 2, 3, 4)),
		o("ecs-truncated-address", ecs(0, 1, 24, 0, 1, 2)),
		o("ecs-scope-nonzero", ecs(0, 1, 24, 24, 192, 0, 2)),
		o("ecs-bad-family", ecs(0, 7, 8, 0, 1)),
		o("ecs-prefix-too-long", ecs(0, 1, 33, 0, 1, 2, 3, 4)),
		o("ecs-duplicate", validV4, ecs(0, 1, 24, 0, 198, 51, 100)),
		o("unknown-option", tbench.Option{Code: 65001, Data: []byte{1, 2, 3}}),
		o("nsid", tbench.Option{Code: tbench.OptNSID}),
		o("cookie", tbench.Option{Code: tbench.OptCookie, Data: []byte{1, 2, 3, 4, 5, 6, 7, 8}}),
		o("padding", tbench.Option{Code: tbench.OptPadding, Data: make([]byte, 13)}),
	}
}

var prodQClasses = []struct {
	tag   string
	class uint16
}{
	{"in", dns.ClassINET}, {"ch", dns.ClassCHAOS}, {"hs", dns.ClassHESIOD}, {"none", dns.ClassNONE},
	{"any", dns.ClassANY}, {"0", 0}, {"csnet", dns.ClassCSNET}, {"65535", 65535}, {"4660", 0x1234},
}

var prodQTypes = []uint16{dns.TypeA, dns.TypeAAAA, dns.TypeTXT, dns.TypeHTTPS, dns.TypeMX, dns.TypeSOA}

// genProd builds the corpus of the production-pipeline phase: every EDNS form
// x every query class x every upstream behaviour.
func genProd(salt uint16) (ins []*input) {
	ups := []string{labelUpOK, labelUpNX, labelUpFail}
	for _, f := range prodForms() {
		for _, qc := range prodQClasses {
			for _, up := range ups {
				i := len(ins)
				upLabel := []byte(up)
				if i%2 == 1 {
					upLabel = []byte(strings.ToUpper(up[:3]) + up[3:])
				}

				spec := &tbench.QuerySpec{
					ID:     permID(i, salt),
					Flags:  tbench.FlagRD,
					Name:   tbench.WireName(upLabel, token("p", i), []byte("Prod"), []byte("test")),
					QType:  prodQTypes[i%len(prodQTypes)],
					QClass: qc.class,
					OPT:    f.opt,
				}

				var parts []string
				if f.tag != "no-edns" && f.tag != "edns-plain" {
					parts = append(parts, f.tag)
				}
				if qc.tag != "in" {
					parts = append(parts, "qclass-"+qc.tag)
				}
				if up != labelUpOK {
					parts = append(parts, "upstream-"+up[2:])
				}
				if len(parts) == 0 {
					parts = []string{"plain"}
				}

				in := &input{
					family: "prod", idx: i, wire: spec.Wire(), tag: strings.Join(parts, "+"),
					desc: fmt.Sprintf("edns=%s qclass=%s(%d) qtype=%d upstream=%s", f.tag, qc.tag, qc.class, spec.QType, up),
				}
				in.finish()
				in.shape = "prod|" + f.tag + "|" + qc.tag + "|" + up
				ins = append(ins, in)
			}
		}
	}

	return ins
}

// prodPhase runs the corpus against real servers of every transport whose
// handler is the production handler chain (dnssvc.NewHandlers, built by the
// stack kit for anonymous clients) with a scripted upstream.  There is no
// reference handler here; the oracle is the part of the property that needs
// none: exactly one response per query on every transport, carrying the
// request's ID and question byte for byte, and the same rcode and records on
// every transport.
func (e *env) prodPhase() (ok bool) {
	r := e.r
	began := time.Now()
	defer func() { r.Extra("production_pipeline_seconds", time.Since(began).Seconds()) }()

	protos := []struct {
		srv   tbench.Server
		proto agd.Protocol
	}{
		{tbench.SrvDNS, agd.ProtoDNS}, {tbench.SrvDoT, agd.ProtoDoT}, {tbench.SrvDoH, agd.ProtoDoH},
		{tbench.SrvDoQ, agd.ProtoDoQ}, {tbench.SrvDNSCrypt, agd.ProtoDNSCrypt},
	}

	grp := &agd.ServerGroup{DDR: stack.NewDDR(false), Name: "g01", FilteringGroup: "fg01"}
	servers := map[tbench.Server]*agd.Server{}
	for _, p := range protos {
		s := stack.NewServer("c01_"+string(p.srv), p.proto, netip.MustParseAddrPort("127.0.0.1:0"), false)
		servers[p.srv] = s
		grp.Servers = append(grp.Servers, s)
	}

	fg := &agd.FilteringGroup{ID: "fg01", FilterConfig: &filter.ConfigGroup{
		Parental: &filter.ConfigParental{}, RuleList: &filter.ConfigRuleList{}, SafeBrowsing: &filter.ConfigSafeBrowsing{},
	}}

	st, err := stack.New(&stack.Options{
		ServerGroups:    []*agd.ServerGroup{grp},
		FilteringGroups: map[agd.FilteringGroupID]*agd.FilteringGroup{"fg01": fg},
		Upstream:        prodUpstream,
	})
	if err != nil {
		r.Inconclusive("production pipeline: cannot build the handler chain: " + err.Error())

		return false
	}

	handlers := map[tbench.Server]dnsserver.Handler{}
	only := []tbench.Server{}
	for _, p := range protos {
		h := st.Handlers[dnssvc.HandlerKey{Server: servers[p.srv], ServerGroup: grp}]
		if h == nil {
			r.Inconclusive("production pipeline: no handler for " + string(p.srv))

			return false
		}

		handlers[p.srv] = h
		only = append(only, p.srv)
	}

	metrics := &tbench.CountingMetrics{}
	b, err := tbench.Start(tbench.Config{
		Handlers:       handlers,
		RequestContext: prodContext{},
		Disposer:       st.Cloner,
		Metrics:        newProdMetrics(metrics),
		Only:           only,
		DNS:            tbench.StreamOptions{MaxUDPRespSize: configuredUDPMax, ReadTimeout: serverReadTimeout},
		DoT:            tbench.StreamOptions{ReadTimeout: serverReadTimeout},
	})
	if err != nil {
		r.Inconclusive("production pipeline: cannot start the bench: " + err.Error())

		return false
	}
	defer func() { _ = b.Close() }()

	h2, err := b.NewHTTPClient(tbench.HTTP2)
	if err != nil {
		r.Inconclusive("production pipeline: cannot create the h2 client: " + err.Error())

		return false
	}

	e4 := &env{
		r: r, b: b, http: map[tbench.HTTPVariant]*tbench.HTTPClient{tbench.HTTP2: h2},
		answerWait: e.answerWait, udpWait: e.udpWait, silenceWait: e.silenceWait, salt: e.salt,
		canons: map[int]map[string]canon{}, wantSamples: map[string]struct{}{"prod-udp|accept/prod:plain": {}},
	}

	const quiet = 25 * time.Millisecond
	prodPaths := []*pathDef{
		{name: "prod-udp", family: famUDP, prod: true, quiet: quiet},
		{name: "prod-tcp", family: famStream, prod: true, quiet: quiet},
		{name: "prod-dot", family: famStream, tls: true, prod: true, quiet: quiet},
		{name: "prod-doh-h2-get", family: famDoH, variant: tbench.HTTP2, get: true, prod: true},
		{name: "prod-doh-h2-post", family: famDoH, variant: tbench.HTTP2, prod: true},
		{name: "prod-doq", family: famDoQ, prod: true},
		{name: "prod-dnscrypt-udp", family: famDNSCryptUDP, prod: true, quiet: quiet},
		{name: "prod-dnscrypt-tcp", family: famDNSCryptTCP, prod: true},
	}

	ins := genProd(e.salt)
	for _, in := range ins {
		if in.cls == clsAccept {
			r.Bucket("prod_inputs:"+in.tag, 1)
		} else {
			r.Bucket("prod_inputs_not_decodable_by_the_library", 1)
		}
	}

	// The long-lived connections run next to the corpus.
	longDone := make(chan struct{})
	go func() {
		defer close(longDone)
		e4.prodLongLived()
	}()

	e4.runPhase(prodPaths, ins, func(*pathDef) int { return 3 }, 0)
	<-longDone
	e4.crossCompareWith(prodPaths, ins, func(in *input, field string) string {
		return "prod:" + in.tag + ":cross-transport:" + field
	})
	e4.prodSummarise()

	if snap := metrics.Snapshot(); snap.Panics > 0 {
		r.Violation("any:panic-recovered", "a server recovered from a panic while handling the workload",
			map[string]any{"phase": "production pipeline", "panics": snap.Panics, "values": snap.PanicValues})
	}

	e4.mu.Lock()
	infra := e4.infra
	e4.mu.Unlock()
	e.mu.Lock()
	e.infra += infra
	e.mu.Unlock()

	for _, p := range prodPaths {
		r.Require("prod_answered:"+p.name, 300)
	}
	for _, tag := range []string{
		"plain", "ecs-valid-v4", "ecs-zero-prefix", "ecs-bits-beyond-prefix", "ecs-address-longer-than-prefix",
		"ecs-truncated-address", "ecs-duplicate", "unknown-option", "qclass-ch", "qclass-ch+upstream-fail",
		"qclass-none+upstream-fail", "upstream-fail", "upstream-nx", "ecs-bits-beyond-prefix+qclass-ch+upstream-fail",
	} {
		r.Require("prod_inputs:"+tag, 1)
	}
	r.Require("prod_cross_transport_comparisons", 2000)

	return true
}

// prodFinding is one problem seen in the production-pipeline phase.
type prodFinding struct {
	in       *input
	path     string
	problem  string
	what     string
	observed string
	decoded  string
}

func (e *env) prodProblem(in *input, path, problem, what string, res tbench.Result) {
	f := prodFinding{in: in, path: path, problem: problem, what: what}
	if res.Outcome != "" {
		f.observed, f.decoded = res.String(), decodeAll(res)
	}

	e.mu.Lock()
	e.prodFound = append(e.prodFound, f)
	e.mu.Unlock()
}

// prodSummarise files the problems of the phase as violations.  There is no
// reference that would say which feature of a query is to blame, so the key
// names the problem and the features that all failing queries of a group have
// in common: first over all queries with that problem and, if they have
// nothing in common, per EDNS form.
func (e *env) prodSummarise() {
	e.mu.Lock()
	found := e.prodFound
	e.mu.Unlock()

	features := func(in *input) map[string]bool {
		m := map[string]bool{}
		for _, p := range strings.Split(in.tag, "+") {
			m[p] = true
		}

		return m
	}

	common := func(fs []prodFinding) (parts []string) {
		acc := features(fs[0].in)
		for _, f := range fs[1:] {
			cur := features(f.in)
			for k := range acc {
				if !cur[k] {
					delete(acc, k)
				}
			}
		}

		for k := range acc {
			parts = append(parts, k)
		}
		sort.Strings(parts)

		return parts
	}

	file := func(problem string, fs []prodFinding, parts []string) {
		tags, paths := map[string]bool{}, map[string]bool{}
		for _, f := range fs {
			tags[f.in.tag], paths[f.path] = true, true
		}

		first := fs[0]
		w := first.in.witness()
		w["path"] = first.path
		w["problem"] = first.what
		w["observed"] = first.observed
		w["observed_decoded"] = first.decoded
		w["observations_with_this_problem"] = len(fs)
		w["paths_affected"] = sortedKeys(paths)
		w["inputs_affected"] = sortedKeys(tags)
		e.r.Violation("prod:"+problem+":"+strings.Join(parts, "+"), first.what, w)
	}

	byProblem := map[string][]prodFinding{}
	for _, f := range found {
		byProblem[f.problem] = append(byProblem[f.problem], f)
	}

	for _, problem := range sortedKeys(byProblem) {
		fs := byProblem[problem]
		sort.SliceStable(fs, func(i, j int) bool {
			if fs[i].in.idx != fs[j].in.idx {
				return fs[i].in.idx < fs[j].in.idx
			}

			return fs[i].path < fs[j].path
		})

		if parts := common(fs); len(parts) > 0 {
			file(problem, fs, parts)

			continue
		}

		byForm := map[string][]prodFinding{}
		for _, f := range fs {
			form := strings.Split(f.in.shape, "|")[1]
			byForm[form] = append(byForm[form], f)
		}

		for _, form := range sortedKeys(byForm) {
			parts := common(byForm[form])
			if len(parts) == 0 {
				parts = []string{"edns-form-" + form}
			}

			file(problem, byForm[form], parts)
		}
	}
}

func sortedKeys[V any](m map[string]V) (keys []string) {
	for k := range m {
		keys = append(keys, k)
	}
	sort.Strings(keys)

	return keys
}

// prodLongLived keeps ONE connection per transport in use for several
// multiples of the handle timeout, with pauses between the queries.  All
// queries of a connection ask the same question (the pipeline has no cache and
// the upstream is a pure function of the question), so every answer must say
// what the first one said.
func (e *env) prodLongLived() {
	r := e.r

	const (
		queries = 10
		pause   = 400 * time.Millisecond
	)

	paths := []*pathDef{
		{name: "prod-long-doq", family: famDoQ, prod: true},
		{name: "prod-long-tcp", family: famStream, prod: true},
		{name: "prod-long-dot", family: famStream, tls: true, prod: true},
		{name: "prod-long-doh-h2", family: famDoH, variant: tbench.HTTP2, prod: true},
	}

	wg := &sync.WaitGroup{}
	for pi, p := range paths {
		wg.Add(1)
		go func(pi int, p *pathDef) {
			defer wg.Done()
			defer func() {
				if v := recover(); v != nil {
					r.Inconclusive(fmt.Sprintf("harness panic in the long-lived worker %s: %v", p.name, v))
				}
			}()

			s, err := e.newSession(p)
			if err != nil {
				e.infraFailure(p.name+":session", err)

				return
			}
			defer s.finish()

			name := tbench.WireName([]byte(labelUpOK), token("long", pi), []byte("Prod"), []byte("test"))
			var firstConn any
			var base *canon
			start := time.Now()
			for k := 0; k < queries; k++ {
				if k > 0 {
					time.Sleep(pause)
				}

				idx := 50000 + pi*100 + k
				spec := &tbench.QuerySpec{ID: permID(idx, e.salt), Flags: tbench.FlagRD, Name: name, QType: dns.TypeA, QClass: dns.ClassINET}
				in := (&input{family: "prod", idx: idx, wire: spec.Wire(), tag: "long-lived-connection",
					desc: fmt.Sprintf("query %d on one connection, %s after it was opened", k, time.Since(start).Round(time.Millisecond))}).finish()
				in.shape = "prod|long-lived|" + fmt.Sprint(k)

				age := time.Since(start)
				e.evalOne(p, s, in)

				conn := connIdentity(s)
				if k == 0 {
					firstConn = conn
				}
				if conn != firstConn || conn == nil {
					// Not the same connection any more; the rest would not
					// test what it is meant to.
					r.Bucket("prod_long_lived_reconnected:"+p.name, 1)

					return
				}

				e.mu.Lock()
				cn, have := e.canons[idx][p.name]
				e.mu.Unlock()
				if !have {
					continue
				}

				switch {
				case base == nil:
					base = &cn
				case cn.hdr != base.hdr || cn.sections != base.sections:
					e.prodProblem(in, p.name, "answer-changed-on-long-lived-connection",
						fmt.Sprintf("query %d on a connection that is %s old is answered %q %s, the first query on it was answered %q %s",
							k, age.Round(time.Millisecond), cn.hdr, cn.sections, base.hdr, base.sections), tbench.Result{})
				}

				if age > prodCtxTimeout {
					r.Bucket("prod_long_lived_queries_after_handle_timeout:"+p.name, 1)
				}
			}
		}(pi, p)
	}

	wg.Wait()

	for _, p := range paths {
		r.Require("prod_long_lived_queries_after_handle_timeout:"+p.name, 4)
	}
}

// connIdentity returns something that changes when the session reconnects.
func connIdentity(s session) any {
	switch s := s.(type) {
	case *streamSession:
		if s.c == nil {
			return nil
		}

		return s.c
	case *doqSession:
		if s.c == nil {
			return nil
		}

		return s.c
	default:
		// The HTTP/2 client keeps its one connection.
		return "shared"
	}
}
