// Package c01 monitors property C01: every accepted query gets exactly one
// matching answer on every transport, and everything that is not an acceptable
// query gets the documented FORMERR / NOTIMP / drop treatment without taking a
// listener down or eliciting a response that carries another ID or question.
package c01

import (
	"fmt"
	"net/http"
	"strings"
	"testing"
	"time"

	"github.com/AdguardTeam/AdGuardDNS/internal/dnsmsg"
	"github.com/AdguardTeam/AdGuardDNS/verif/tbench"
	"github.com/AdguardTeam/AdGuardDNS/verif/vkit"
)

func TestCheck(t *testing.T) {
	r := vkit.Start(t, "C01", "exploration")
	defer r.Finish()

	r.Rule("Cases are fixed lists determined by the seed: (1) well-formed queries built byte by byte from generated " +
		"names (10 kinds incl. mixed case, 255 octets, special bytes), qtype/qclass classes weighted to the special ones, " +
		"random header flags, EDNS shapes, optional NOTIFY/IXFR-style records and the handler's reserved labels; " +
		"(2) hostile inputs: random bytes, truncations of valid messages at every offset, header mutations over " +
		"QR x opcode x section counts {0,1,2,65535} (header-only and with consistent content), structural oddities; " +
		"(3) queries whose handling takes 30 ms, written in bursts of 1..5 on TCP/DoT connections that the client " +
		"half-closes right behind them; (4) uniquely named queries sent by 32 parallel clients per path to a second " +
		"set of servers whose responses are built from, and disposed of into, the pools of a production dnsmsg.Cloner; " +
		"(5) servers with pipeline limit 1 and 2 and a request-context timeout: connection A holds that many queries " +
		"inside the handler (a gate the harness controls) while fresh connections B and C send ordinary queries; " +
		"TCP and DoT frames are also written in pieces cut after the first prefix octet, after the prefix, inside the header and one byte before the end; " +
		"(8) servers whose handler is the production chain of dnssvc with a scripted upstream: every EDNS form (incl. raw malformed ECS) x 9 query classes x upstream answer / NXDOMAIN / failure, judged without a reference handler: exactly one response, ID and question byte-equal, transports agree; " +
		"(9) 10 300 queries held inside the handler of one plain-DNS server at once, an ordinary TCP query meanwhile, liveness probes on UDP and TCP afterwards; " +
		"(6) 160 sequential queries per DoQ connection whose FIN follows the query in a later packet; " +
		"(7) datagrams of 513..4000 bytes (padded valid queries, valid queries followed by filler, garbage) over plain UDP, " +
		"judged by their first 512 bytes. " +
		"Every input is sent over every client path and the observation is compared with the treatment computed from " +
		"the bytes alone (reference = the handler invoked directly through NonWriterResponseWriter). " +
		"A case is non-trivial when it was actually sent and an observation was judged; its class is " +
		"(client path, input shape, expected treatment) where the input shape is (name kind, qtype class, qclass class, " +
		"EDNS feature set, opcode, extra-record placement, handler behaviour) for queries and (hostile family, class " +
		"computed from the bytes) for hostile inputs.")
	r.Assume("the DNS library's Unpack defines which byte strings are decodable; the harness calls it on exactly the bytes it sends")
	r.Assume("the plain-DNS server keeps the production read buffer (UDPSize 512) and OOB listen config; a UDP datagram longer than that is judged by its first 512 bytes, which is all the server is documented to read")
	r.Assume("silence on datagram transports is observed for a bounded time; a response arriving later on the same socket is still attributed by its ID")
	r.Assume("a connection closed by the server more than 1 s after the harness last wrote on it, and a UDP query answered only after retransmission, are counted as ambiguous, not as violations")
	r.Assume("the servers carry the production metrics listener (prometheus.NewServerMetricsListener, as dnssvc.New installs it) next to the harness' counting listener")
	r.Assume("DoQ answers SERVFAIL where other transports stay silent (response bit, handler wrote nothing): serveQUICStream documents 'Make sure that at least some response has been written'")

	// Infrastructure.
	metrics := &tbench.CountingMetrics{}
	b, err := tbench.Start(tbench.Config{
		Handler:  serverHandler(),
		Metrics:  newProdMetrics(metrics),
		EnableH3: r.Thorough(),
		DNS:      tbench.StreamOptions{MaxUDPRespSize: configuredUDPMax, ReadTimeout: serverReadTimeout},
		DoT:      tbench.StreamOptions{ReadTimeout: serverReadTimeout},
	})
	if err != nil {
		r.Sample(map[string]any{"setup_error": err.Error()})
		r.Inconclusive("cannot start the transport bench: " + err.Error())

		return
	}
	defer func() {
		if cErr := b.Close(); cErr != nil {
			// A server that cannot shut down is not this property's subject.
			r.Extra("shutdown_error", cErr.Error())
		}
	}()

	e := &env{
		r:           r,
		b:           b,
		http:        map[tbench.HTTPVariant]*tbench.HTTPClient{},
		answerWait:  10 * time.Second,
		udpWait:     4 * time.Second,
		silenceWait: 200 * time.Millisecond,
		salt:        uint16(r.Seed * 7919),
		canons:      map[int]map[string]canon{},
		wantSamples: map[string]struct{}{},
	}
	var paths, halfClosePaths []*pathDef
	for _, p := range allPaths {
		switch {
		case p.thorough && !r.Thorough():
			// Skip.
		case p.halfClose:
			halfClosePaths = append(halfClosePaths, p)
		default:
			paths = append(paths, p)
		}
	}

	for _, p := range paths {
		if p.family != famDoH && p.family != famJSON {
			continue
		}
		if e.http[p.variant] == nil {
			e.http[p.variant], err = b.NewHTTPClient(p.variant)
			if err != nil {
				r.Sample(map[string]any{"setup_error": err.Error()})
				r.Inconclusive("cannot create the " + string(p.variant) + " client: " + err.Error())

				return
			}
		}
	}

	for _, c := range []string{
		"udp|accept/handler-answered", "doq|response-bit", "dot|undecodable", "doh-h2-get|counts",
		"dnscrypt-udp|opcode", "tcp|accept/handler-silent",
	} {
		e.wantSamples[c] = struct{}{}
	}

	// Phase 1: well-formed queries over every path, a few concurrent senders
	// per path, then the cross-transport comparison.
	nValid := r.N(400, 16000)
	valid := make([]*input, nValid)
	for i := range valid {
		valid[i] = genValid(r, i, e.salt)
		if valid[i].cls != clsAccept {
			r.Bucket("generated_query_class:"+valid[i].cls.String(), 1)
		}
	}

	e.runPhase(paths, valid, func(p *pathDef) int {
		if p.family == famUDP || p.family == famDNSCryptUDP {
			return r.N(3, 6)
		}

		return r.N(2, 4)
	}, 0)
	e.crossCompare(r, valid)

	// Phase 2: hostile inputs, a liveness probe after every batch through the
	// same session (same listener).
	hostile := genHostile(r, e.salt)
	if len(hostile) >= probeIDBase {
		r.Inconclusive(fmt.Sprintf("hostile list of %d inputs overlaps the ID space of the probes", len(hostile)))

		return
	}
	var hostilePaths []*pathDef
	for _, p := range paths {
		if p.family != famJSON && p.pipelined == 0 {
			hostilePaths = append(hostilePaths, p)
		}
	}

	e.runPhase(hostilePaths, hostile, func(p *pathDef) int {
		switch p.family {
		case famUDP, famDNSCryptUDP:
			return r.N(8, 12)
		case famDoQ:
			return r.N(4, 8)
		default:
			return r.N(3, 6)
		}
	}, 15)

	// Phase 3: requests that are wrong at the HTTP level.
	e.httpLevel(paths)

	// Phase 4: the client half-closes (TCP FIN, TLS close_notify) right after
	// writing 1…5 queries whose handling takes 30 ms: the server's read loop
	// ends while accepted queries are still in the handler, and every one of
	// them must still get its answer.
	nSlow := r.N(240, 2400)
	slow := make([]*input, nSlow)
	for i := range slow {
		l := []byte(labelSlow)
		if i%2 == 1 {
			l = []byte("HSlow")
		}
		slow[i] = genPlain(r, "slow", i, e.salt, l)
	}

	e.runPhase(halfClosePaths, slow, func(*pathDef) int { return r.N(4, 8) }, 0)

	// Phase 5: pooled responses under truly concurrent traffic.
	if !e.poolPhase() {
		return
	}

	// Phase 6: the pipeline limit is per connection.
	if !e.pipePhase() {
		return
	}

	// Phase 7: long-lived DoQ connections, FIN in a later packet.
	e.doqLongLived()

	// Phase 9: more than 10 000 handlers of one server busy at once.
	e.poolBurst()

	// Phase 8: the production handler chain behind every transport.
	if !e.prodPhase() {
		return
	}

	// Observations of the servers themselves.
	snap := metrics.Snapshot()
	r.Extra("server_metrics", snap)
	r.Bucket("handler_invocations", hInvocations.Load())
	r.Bucket("server_on_request", snap.Requests)
	r.Bucket("server_on_invalid_msg", snap.InvalidMsgs)
	if snap.Panics > 0 {
		r.Violation("any:panic-recovered", "a server recovered from a panic while handling the workload (the handler never panics)",
			map[string]any{"panics": snap.Panics, "values": snap.PanicValues})
	}

	e.mu.Lock()
	infra := e.infra
	e.mu.Unlock()
	if infra > 20 {
		r.Inconclusive(fmt.Sprintf("%d client-side infrastructure failures (dial / send), see buckets infra_failure:*", infra))
	}

	// Coverage gates: minima far below what the unchanged tree produces.
	for _, p := range paths {
		switch {
		case p.family == famJSON:
			r.Require("path:"+p.name+":accept/json-document", int64(r.N(150, 1500)))
		default:
			r.Require("path:"+p.name+":accept/handler-answered", int64(r.N(150, 1500)))
		}
	}
	for _, p := range halfClosePaths {
		r.Require("path:"+p.name+":accept/handler-answered", int64(r.N(200, 2000)))
		r.Require("pipelined_bursts:"+p.name, int64(r.N(30, 300)))
	}
	for _, p := range hostilePaths {
		r.Require("path:"+p.name+":undecodable", int64(r.N(150, 800)))
		r.Require("path:"+p.name+":liveness", int64(r.N(20, 100)))
	}
	r.Require("class:undecodable", int64(r.N(2000, 10000)))
	r.Require("class:response-bit", int64(r.N(800, 4000)))
	r.Require("class:opcode", int64(r.N(400, 2000)))
	r.Require("class:counts", int64(r.N(150, 700)))
	r.Require("class:accept/handler-silent", int64(r.N(20, 200)))
	r.Require("class:accept/handler-error", int64(r.N(40, 400)))
	r.Require("class:accept/handler-write-error", int64(r.N(60, 600)))
	// Stream framings cut inside and right behind the length prefix.
	for _, name := range []string{"tcp-split", "dot-split"} {
		r.Require("split:after-first-prefix-octet:"+name, int64(r.N(60, 600)))
		r.Require("split:after-first-prefix-octet+all:"+name, int64(r.N(60, 600)))
		r.Require("split:after-prefix:"+name, int64(r.N(60, 600)))
	}

	// Datagrams longer than the UDP read buffer, each batch followed by a
	// liveness probe on the same listener.
	r.Require("udp_oversize_datagrams:udp", int64(r.N(24, 100)))
	for _, p := range hostilePaths {
		// Messages without any question, on every transport.
		r.Require("zero_question_inputs:"+p.name, 15)
	}
	r.Require("cross_transport_comparisons", int64(r.N(3000, 30000)))
	r.Require("handler_invocations", int64(r.N(4000, 40000)))
	r.Require("http_proto:doh-h2-post:HTTP/2.0", int64(r.N(150, 1500)))
	r.Require("http_proto:doh-h1-post:HTTP/1.1", int64(r.N(150, 1500)))
	r.Require("http_proto:doh-plain-post:HTTP/1.1", int64(r.N(150, 1500)))
	r.Require("http_level_requests", 20)
	if r.Thorough() {
		r.Require("http_proto:doh-h3-post:HTTP/3.0", 1500)
	}
}

// httpLevel sends requests that are wrong at the HTTP level; the server
// documents 400 for a request that cannot be converted into a DNS message.
func (e *env) httpLevel(paths []*pathDef) {
	valid := tbench.SimpleQuery(0x4242, "http.level.test.", 1, 1)
	b64 := tbench.Base64URL(valid)

	type req struct {
		desc   string
		method string
		path   string
		query  string
		body   []byte
	}

	reqs := []req{
		{desc: "GET without dns parameter", method: http.MethodGet, path: "/dns-query"},
		{desc: "GET with two dns parameters", method: http.MethodGet, path: "/dns-query", query: "dns=" + b64 + "&dns=" + b64},
		{desc: "GET with characters outside base64url", method: http.MethodGet, path: "/dns-query", query: "dns=%21%21%21%21"},
		{desc: "GET with padded base64", method: http.MethodGet, path: "/dns-query", query: "dns=" + b64 + strings.Repeat("%3D", 3)},
		{desc: "GET with standard (not url) base64 alphabet", method: http.MethodGet, path: "/dns-query", query: "dns=%2B%2F%2B%2F"},
		{desc: "PUT", method: http.MethodPut, path: "/dns-query", body: valid},
		{desc: "JSON without name", method: http.MethodGet, path: "/resolve", query: "type=A"},
		{desc: "JSON with unknown type", method: http.MethodGet, path: "/resolve", query: "name=example.org&type=NOSUCHTYPE"},
		{desc: "JSON with bad boolean", method: http.MethodGet, path: "/resolve", query: "name=example.org&cd=maybe"},
		{desc: "JSON with unknown class", method: http.MethodGet, path: "/resolve", query: "name=example.org&qc=NOSUCHCLASS"},
	}

	seen := map[tbench.HTTPVariant]bool{}
	for _, p := range paths {
		if p.family != famDoH || seen[p.variant] {
			continue
		}
		seen[p.variant] = true
		c := e.http[p.variant]

		for _, rq := range reqs {
			var res tbench.Result
			for attempt := 0; attempt < 3; attempt++ {
				if rq.method == http.MethodGet {
					res = c.GetRawQuery(rq.path, rq.query, e.answerWait)
				} else {
					res = c.Send(rq.method, rq.path, rq.body, e.answerWait)
				}
				if res.Outcome != tbench.Failed {
					break
				}
			}

			e.r.Bucket("http_level_requests", 1)
			e.r.Eval("http-level|"+string(p.variant)+"|"+rq.desc, true)
			if res.Outcome != tbench.HTTPStatus || res.HTTPStatus < 400 || res.HTTPStatus > 499 {
				e.r.Violation("http-level:"+string(p.variant)+":not-4xx", "a request that cannot be converted into a DNS message was not rejected with a 4xx status",
					map[string]any{"variant": p.variant, "request": rq.desc, "query": rq.query, "observed": res.String(), "body": string(res.Body)})
			}
		}

		// The listener must still answer.
		res := c.Post(valid, e.answerWait)
		probe := (&input{family: "probe", wire: valid, desc: "liveness probe after HTTP-level requests", shape: "probe"}).finish()
		pd := &pathDef{name: "doh-" + string(p.variant) + "-post", family: famDoH, variant: p.variant}
		e.account(pd, probe, expect(pd, probe), observation{res: res})
	}
}

// poolClients is the number of parallel clients per path in the pooled phase.
const poolClients = 32

// poolPhase starts a second bench whose servers dispose of responses into the
// pools of a production dnsmsg.Cloner and whose handler builds every response
// from those pools, and drives it with poolClients parallel clients per path.
// Every request has a unique name; a response that was recycled before it was
// sent shows up with another request's ID, question or records.  It returns
// false if the phase could not be run.
func (e *env) poolPhase() (ok bool) {
	r := e.r

	cloner := dnsmsg.NewCloner(dnsmsg.EmptyClonerStat{})
	handlerConc := newConcurrency()
	metrics := &tbench.CountingMetrics{}
	b, err := tbench.Start(tbench.Config{
		Handler:  poolingHandler(cloner, handlerConc),
		Disposer: cloner,
		Metrics:  newProdMetrics(metrics),
		Only:     []tbench.Server{tbench.SrvDNS, tbench.SrvDoT, tbench.SrvDoH, tbench.SrvDoQ, tbench.SrvDNSCrypt},
		DNS:      tbench.StreamOptions{MaxUDPRespSize: configuredUDPMax, ReadTimeout: serverReadTimeout},
		DoT:      tbench.StreamOptions{ReadTimeout: serverReadTimeout},
	})
	if err != nil {
		r.Inconclusive("cannot start the second transport bench: " + err.Error())

		return false
	}
	defer func() {
		if cErr := b.Close(); cErr != nil {
			r.Extra("shutdown_error_pool_bench", cErr.Error())
		}
	}()

	h2, err := b.NewHTTPClient(tbench.HTTP2)
	if err != nil {
		r.Inconclusive("cannot create the h2 client of the second bench: " + err.Error())

		return false
	}

	e2 := &env{
		r:           r,
		b:           b,
		http:        map[tbench.HTTPVariant]*tbench.HTTPClient{tbench.HTTP2: h2},
		answerWait:  e.answerWait,
		udpWait:     e.udpWait,
		silenceWait: e.silenceWait,
		salt:        e.salt,
		canons:      map[int]map[string]canon{},
		wantSamples: map[string]struct{}{},
		inflight:    newConcurrency(),
	}

	poolPaths := []*pathDef{
		{name: "pool-udp", family: famUDP},
		{name: "pool-tcp", family: famStream},
		{name: "pool-dot", family: famStream, tls: true},
		{name: "pool-doh-h2-post", family: famDoH, variant: tbench.HTTP2},
		{name: "pool-doq", family: famDoQ},
		{name: "pool-dnscrypt-udp", family: famDNSCryptUDP},
		{name: "pool-dnscrypt-tcp", family: famDNSCryptTCP},
	}

	perClient := r.N(40, 300)
	ins := make([]*input, poolClients*perClient)
	for i := range ins {
		ins[i] = genPlain(r, "pool", i, e.salt)
	}

	e2.runPhase(poolPaths, ins, func(*pathDef) int { return poolClients }, 0)

	for name, n := range e2.inflight.maxima() {
		r.Bucket("pool_max_inflight:"+name, int64(n))
	}
	for name, n := range handlerConc.maxima() {
		r.Bucket("pool_max_concurrent_handlers:"+name, int64(n))
	}
	if snap := metrics.Snapshot(); snap.Panics > 0 {
		r.Violation("any:panic-recovered", "a server recovered from a panic while handling the workload (the handler never panics)",
			map[string]any{"phase": "pooled responses", "panics": snap.Panics, "values": snap.PanicValues})
	}

	e2.mu.Lock()
	e.mu.Lock()
	e.infra += e2.infra
	e.mu.Unlock()
	e2.mu.Unlock()

	for _, p := range poolPaths {
		r.Require("path:"+p.name+":accept/handler-answered", int64(poolClients*perClient*9/10))
		r.Require("pool_max_inflight:"+p.name, poolClients/2)
	}

	return true
}
