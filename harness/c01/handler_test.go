package c01

import (
	"context"
	"crypto/sha256"
	"errors"
	"fmt"
	"net"
	"strings"
	"sync"
	"sync/atomic"
	"time"

	"github.com/AdguardTeam/AdGuardDNS/internal/dnsmsg"
	"github.com/AdguardTeam/AdGuardDNS/internal/dnsserver"
	dnssrvprom "github.com/AdguardTeam/AdGuardDNS/internal/dnsserver/prometheus"
	"github.com/AdguardTeam/AdGuardDNS/verif/tbench"
	"github.com/miekg/dns"
	"github.com/prometheus/client_golang/prometheus"
)

// Reserved first labels (compared case-insensitively) that make H misbehave on
// purpose.
const (
	labelSilent = "hsilent" // write nothing, return nil
	labelError  = "herror"  // write nothing, return an ordinary error
	labelNetErr = "hneterr" // write nothing, return a net timeout error
	// labelBadPack: build a response with a record that cannot be put on the
	// wire (an owner name with an empty label), write it, and return whatever
	// error the writer gave, as every service handler does.
	labelBadPack = "hbadpack"
)

var errHandler = errors.New("c01: scripted handler failure")

// timeoutErr is a net.Error whose Timeout is true.
type timeoutErr struct{}

func (timeoutErr) Error() string   { return "c01: scripted timeout" }
func (timeoutErr) Timeout() bool   { return true }
func (timeoutErr) Temporary() bool { return true }

var _ net.Error = timeoutErr{}

// hInvocations counts the invocations of H by the servers (not by the
// reference).
var hInvocations atomic.Int64

// labelSlow marks names for which the servers' copy of H takes slowDelay before
// it behaves as usual (the response itself does not depend on the label being
// special).  The reference invocation does not wait.
const (
	labelSlow = "hslow"
	slowDelay = 30 * time.Millisecond
)

// serverHandler is H as given to the servers.
func serverHandler() dnsserver.Handler {
	return dnsserver.HandlerFunc(func(ctx context.Context, rw dnsserver.ResponseWriter, req *dns.Msg) error {
		hInvocations.Add(1)
		if len(req.Question) == 1 && strings.EqualFold(firstLabel(req.Question[0].Name), labelSlow) {
			time.Sleep(slowDelay)
		}

		return hServe(ctx, rw, req)
	})
}

// concurrency measures how many invocations of a handler overlap.
type concurrency struct {
	mu  sync.Mutex
	cur map[string]int
	max map[string]int
}

func newConcurrency() *concurrency { return &concurrency{cur: map[string]int{}, max: map[string]int{}} }

func (c *concurrency) enter(name string) {
	c.mu.Lock()
	defer c.mu.Unlock()

	c.cur[name]++
	if c.cur[name] > c.max[name] {
		c.max[name] = c.cur[name]
	}
}

func (c *concurrency) leave(name string) {
	c.mu.Lock()
	defer c.mu.Unlock()

	c.cur[name]--
}

func (c *concurrency) maxima() map[string]int {
	c.mu.Lock()
	defer c.mu.Unlock()

	out := map[string]int{}
	for k, v := range c.max {
		out[k] = v
	}

	return out
}

// poolingHandler is H for the pooled-response phase: the same response as H's,
// but built the way the production code builds responses, as a clone taken
// from the pools of cloner, which is also the servers' Disposer.  When the
// request has an OPT record the response always brings its own, so that pooled
// OPT records take part.  It never keeps a reference to what it wrote.
func poolingHandler(cloner *dnsmsg.Cloner, conc *concurrency) dnsserver.Handler {
	return dnsserver.HandlerFunc(func(ctx context.Context, rw dnsserver.ResponseWriter, req *dns.Msg) error {
		hInvocations.Add(1)

		name := "?"
		if si, ok := dnsserver.ServerInfoFromContext(ctx); ok {
			name = si.Name
		}
		conc.enter(name)
		defer conc.leave(name)

		if len(req.Question) != 1 {
			return fmt.Errorf("c01: handler called with %d questions", len(req.Question))
		}

		reqOpt := req.IsEdns0()
		tmpl := hResponse(req, req.Question[0], reqOpt != nil && reqOpt.Do(), reqOpt != nil)
		if reqOpt != nil && tmpl.IsEdns0() == nil {
			tmpl.SetEdns0(1232, reqOpt.Do())
		}

		_ = rw.WriteMsg(ctx, req, cloner.Clone(tmpl))

		return nil
	})
}

// hServe is the deterministic handler H: its response is a pure function of
// the question (name with exact case, type, class) and the DO bit, plus the
// fields every responder copies from the request (ID, opcode, RD, CD).
func hServe(ctx context.Context, rw dnsserver.ResponseWriter, req *dns.Msg) (err error) {
	if len(req.Question) != 1 {
		// The servers promise exactly one question; answer something that the
		// oracle can never take for a reference answer.
		return fmt.Errorf("c01: handler called with %d questions", len(req.Question))
	}

	q := req.Question[0]
	switch strings.ToLower(firstLabel(q.Name)) {
	case labelSilent:
		return nil
	case labelError:
		return errHandler
	case labelNetErr:
		return timeoutErr{}
	case labelBadPack:
		// Small enough never to be truncated, so that the unpackable record
		// reaches the packer on every transport.
		resp := (&dns.Msg{}).SetReply(req)
		resp.Ns = append(resp.Ns, &dns.NS{
			Hdr: dns.RR_Header{Name: "empty..label.test.", Rrtype: dns.TypeNS, Class: dns.ClassINET, Ttl: 1},
			Ns:  "ns1.zone.test.",
		})

		return rw.WriteMsg(ctx, req, resp)
	}

	do := false
	reqOpt := req.IsEdns0()
	if reqOpt != nil {
		do = reqOpt.Do()
	}

	// Write errors (client gone) are not the handler's business.
	_ = rw.WriteMsg(ctx, req, hResponse(req, q, do, reqOpt != nil))

	return nil
}

func firstLabel(name string) (l string) {
	labels := dns.SplitDomainName(name)
	if len(labels) == 0 {
		return ""
	}

	return labels[0]
}

var hRcodes = [8]int{
	dns.RcodeSuccess, dns.RcodeSuccess, dns.RcodeSuccess, dns.RcodeSuccess, dns.RcodeSuccess,
	dns.RcodeNameError, dns.RcodeServerFailure, dns.RcodeRefused,
}

// hResponse builds H's response.
func hResponse(req *dns.Msg, q dns.Question, do, hasOpt bool) (resp *dns.Msg) {
	h := sha256.Sum256([]byte(fmt.Sprintf("%s|%d|%d|%t", q.Name, q.Qtype, q.Qclass, do)))

	resp = (&dns.Msg{}).SetReply(req)
	resp.RecursionAvailable = true
	resp.Authoritative = h[11]&1 != 0
	resp.AuthenticatedData = h[11]&2 != 0
	resp.Rcode = hRcodes[h[0]%8]

	nAns := int(h[1] % 7)
	if resp.Rcode != dns.RcodeSuccess {
		nAns = int(h[1] % 2)
	}
	for i := 0; i < nAns; i++ {
		resp.Answer = append(resp.Answer, hRR(q.Name, h[2+i], uint32(30+7*i)+uint32(h[20])))
	}

	switch h[8] % 3 {
	case 1:
		resp.Ns = append(resp.Ns, hRR("zone.test.", 8, 3600))
	case 2:
		resp.Ns = append(resp.Ns, hRR("zone.test.", 7, 7200), hRR("zone.test.", 7, 7201))
	}

	for i := 0; i < int(h[9]%3); i++ {
		resp.Extra = append(resp.Extra, hRR("ns1.zone.test.", byte(i), 600))
	}

	if do {
		resp.Extra = append(resp.Extra, &dns.TXT{
			Hdr: dns.RR_Header{Name: "do.zone.test.", Rrtype: dns.TypeTXT, Class: dns.ClassINET, Ttl: 5},
			Txt: []string{"dnssec-ok"},
		})
	}

	if h[10]%16 == 0 {
		// A response that does not fit a small UDP buffer.
		for i := 0; i < 30; i++ {
			resp.Answer = append(resp.Answer, &dns.TXT{
				Hdr: dns.RR_Header{Name: q.Name, Rrtype: dns.TypeTXT, Class: dns.ClassINET, Ttl: 60},
				Txt: []string{fmt.Sprintf("%02d-%s", i, strings.Repeat("x", 44))},
			})
		}
	}

	if hasOpt && h[12]%8 == 0 {
		// Sometimes the handler brings its own OPT record.
		resp.SetEdns0(1400, false)
		opt := resp.Extra[len(resp.Extra)-1].(*dns.OPT)
		opt.Option = append(opt.Option, &dns.EDNS0_EDE{InfoCode: dns.ExtendedErrorCodeOther, ExtraText: "h"})
	}

	return resp
}

// hRR builds one record of a kind chosen by sel.
func hRR(owner string, sel byte, ttl uint32) (rr dns.RR) {
	hdr := func(t uint16) dns.RR_Header {
		return dns.RR_Header{Name: owner, Rrtype: t, Class: dns.ClassINET, Ttl: ttl}
	}

	switch sel % 12 {
	case 0:
		return &dns.A{Hdr: hdr(dns.TypeA), A: net.IPv4(192, 0, 2, sel).To4()}
	case 1:
		return &dns.AAAA{Hdr: hdr(dns.TypeAAAA), AAAA: net.IP{0x20, 1, 0xd, 0xb8, 0, 0, 0, 0, 0, 0, 0, 0, 0, 0, 0, sel}}
	case 2:
		return &dns.CNAME{Hdr: hdr(dns.TypeCNAME), Target: fmt.Sprintf("alias%d.target.test.", sel)}
	case 3:
		return &dns.TXT{Hdr: hdr(dns.TypeTXT), Txt: []string{"v=c01", fmt.Sprintf("sel=%d;", sel), "Mixed Case \"quoted\""}}
	case 4:
		return &dns.MX{Hdr: hdr(dns.TypeMX), Preference: uint16(sel), Mx: "mail.target.test."}
	case 5:
		return &dns.SRV{Hdr: hdr(dns.TypeSRV), Priority: 1, Weight: uint16(sel), Port: 853, Target: "srv.target.test."}
	case 6:
		return &dns.PTR{Hdr: hdr(dns.TypePTR), Ptr: "ptr.target.test."}
	case 7:
		return &dns.NS{Hdr: hdr(dns.TypeNS), Ns: fmt.Sprintf("ns%d.zone.test.", sel%4)}
	case 8:
		return &dns.SOA{
			Hdr: hdr(dns.TypeSOA), Ns: "ns1.zone.test.", Mbox: "hostmaster.zone.test.",
			Serial: 2024010100 + uint32(sel), Refresh: 7200, Retry: 900, Expire: 1209600, Minttl: 300,
		}
	case 9:
		return &dns.HTTPS{SVCB: dns.SVCB{
			Hdr: hdr(dns.TypeHTTPS), Priority: 1, Target: ".",
			Value: []dns.SVCBKeyValue{
				&dns.SVCBAlpn{Alpn: []string{"h2", "h3"}},
				&dns.SVCBIPv4Hint{Hint: []net.IP{net.IPv4(192, 0, 2, 7).To4(), net.IPv4(192, 0, 2, 8).To4()}},
			},
		}}
	case 10:
		return &dns.CAA{Hdr: hdr(dns.TypeCAA), Flag: 0, Tag: "issue", Value: "ca.target.test"}
	default:
		return &dns.RFC3597{Hdr: hdr(65280), Rdata: fmt.Sprintf("c0ffee%02x", sel)}
	}
}

// refKind is the kind of outcome of the reference invocation of H.
type refKind int

const (
	refWrote   refKind = iota // H wrote a response
	refSilent                 // H wrote nothing and returned nil
	refError                  // H returned an error
	refNetErr                 // H returned a net timeout error
	refBadPack                // H handed the writer a response that cannot be packed and returned the writer's error
)

func (k refKind) String() string {
	return [...]string{"wrote", "handler-silent", "handler-error", "handler-neterror", "handler-write-error"}[k]
}

var refAddr = &net.TCPAddr{IP: net.IPv4(127, 0, 0, 1), Port: 1}

// reference invokes H directly through a NonWriterResponseWriter, as the
// design prescribes, on a private copy of the request.
func reference(req *dns.Msg) (kind refKind, resp *dns.Msg) {
	if len(req.Question) == 1 && strings.EqualFold(firstLabel(req.Question[0].Name), labelBadPack) {
		// The outcome of this class depends on the writer, which is the
		// transport's; the expectation table says what each one documents.
		return refBadPack, nil
	}

	nrw := dnsserver.NewNonWriterResponseWriter(refAddr, refAddr)
	err := hServe(context.Background(), nrw, req.Copy())
	switch {
	case errors.As(err, &timeoutErr{}):
		return refNetErr, nil
	case err != nil:
		return refError, nil
	case nrw.Msg() == nil:
		return refSilent, nil
	default:
		return refWrote, nrw.Msg()
	}
}

// prodMetrics is the metrics wiring of production plus the harness' counters:
// dnssvc.New installs prometheus.NewServerMetricsListener on every server, and
// the servers call it for every message, acceptable or not, between recording
// a response and (on DoH, DoQ and DNSCrypt) sending it.
type prodMetrics struct {
	prom  dnsserver.MetricsListener
	count *tbench.CountingMetrics
}

var (
	promOnce     sync.Once
	promListener dnsserver.MetricsListener
)

// newProdMetrics returns the composite listener.  The prometheus listener
// registers its collectors with promauto, so there is one per process, on a
// private registry.
func newProdMetrics(count *tbench.CountingMetrics) *prodMetrics {
	promOnce.Do(func() {
		reg := prometheus.NewRegistry()
		prometheus.DefaultRegisterer, prometheus.DefaultGatherer = reg, reg
		promListener = dnssrvprom.NewServerMetricsListener("c01")
	})

	return &prodMetrics{prom: promListener, count: count}
}

// type check
var _ dnsserver.MetricsListener = (*prodMetrics)(nil)

func (m *prodMetrics) OnRequest(ctx context.Context, info *dnsserver.QueryInfo, rw dnsserver.ResponseWriter) {
	m.count.OnRequest(ctx, info, rw)
	m.prom.OnRequest(ctx, info, rw)
}

func (m *prodMetrics) OnInvalidMsg(ctx context.Context) {
	m.count.OnInvalidMsg(ctx)
	m.prom.OnInvalidMsg(ctx)
}

func (m *prodMetrics) OnError(ctx context.Context, err error) {
	m.count.OnError(ctx, err)
	m.prom.OnError(ctx, err)
}

func (m *prodMetrics) OnPanic(ctx context.Context, v any) {
	m.count.OnPanic(ctx, v)
	m.prom.OnPanic(ctx, v)
}

func (m *prodMetrics) OnQUICAddressValidation(hit bool) {
	m.count.OnQUICAddressValidation(hit)
	m.prom.OnQUICAddressValidation(hit)
}
