package c01

import (
	"fmt"
	"math/rand/v2"
	"strconv"
	"strings"

	"github.com/AdguardTeam/AdGuardDNS/verif/tbench"
	"github.com/AdguardTeam/AdGuardDNS/verif/vkit"
	"github.com/miekg/dns"
)

// input is one wire input together with everything the oracle derives from
// its bytes alone.
type input struct {
	msg *dns.Msg // own bytes as parsed by the DNS library; nil if they do not parse

	family string // valid, valid-large, probe, random, truncation, header-lie, header-consistent, structural, prod, ...
	desc   string
	tag    string // production-pipeline corpus: the special features of the query, used in violation keys
	shape  string // normalised class of the case, for the distinct-case count

	wire []byte
	tail []byte // truncation family: the bytes that were cut off

	idx int
	cls inClass
}

func (in *input) finish() *input {
	in.cls, in.msg = classify(in.wire)

	return in
}

// witness renders the input for violation reports.
func (in *input) witness() map[string]any {
	w := map[string]any{
		"family":   in.family,
		"index":    in.idx,
		"desc":     in.desc,
		"wire_hex": fmt.Sprintf("%x", in.wire),
		"class":    in.cls.String(),
	}
	if in.msg != nil && len(in.msg.Question) > 0 {
		w["question"] = questionString(in.msg.Question[0])
	}

	return w
}

// permID maps an index to a 16-bit ID, injectively for indexes below 65536.
func permID(i int, salt uint16) (id uint16) { return uint16(i)*40503 + salt }

// token is the unique label of case i.
func token(prefix string, i int) []byte { return []byte(prefix + strconv.FormatInt(int64(i), 36)) }

// soaRR is a small SOA record owned by the root, usable in the answer section
// of a NOTIFY or the authority section of an IXFR query.
func soaRR() []byte {
	rdata := append([]byte{0}, 0) // mname ".", rname "."
	rdata = append(rdata, 0, 0, 0, 1, 0, 0, 0, 2, 0, 0, 0, 3, 0, 0, 0, 4, 0, 0, 0, 5)

	return tbench.RawRR([]byte{0}, dns.TypeSOA, dns.ClassINET, 60, rdata)
}

// genValid generates query i of the well-formed list.
func genValid(r *vkit.Run, i int, salt uint16) (in *input) {
	rng := r.Rand("valid", i)

	// The handler's reserved labels appear at fixed positions of the list so
	// that their number does not depend on the seed.
	reserved := ""
	switch i % 40 {
	case 7:
		reserved = labelSilent
	case 17:
		reserved = labelError
	case 27:
		reserved = labelNetErr
	case 37:
		reserved = labelBadPack
	}

	var lead [][]byte
	if reserved != "" {
		l := []byte(reserved)
		if rng.IntN(2) == 0 {
			l = []byte(strings.ToUpper(reserved[:2]) + reserved[2:])
		}
		lead = append(lead, l)
	}
	lead = append(lead, token("c", i))

	name, nameKind := tbench.GenName(rng, lead...)
	if reserved != "" && nameKind == tbench.NameRoot {
		nameKind = tbench.NameSimple
		name = tbench.GenNameOfKind(rng, nameKind, lead...)
	}

	qtype, qtClass := tbench.GenQType(rng)
	qclass, qcClass := tbench.GenQClass(rng)

	spec := &tbench.QuerySpec{
		ID:     permID(i, salt),
		Flags:  tbench.GenQueryFlags(rng),
		Name:   name,
		QType:  qtype,
		QClass: qclass,
	}

	extraRR := "none"
	switch rng.IntN(20) {
	case 0:
		spec.Answer = [][]byte{soaRR()}
		extraRR = "answer-1"
	case 1:
		spec.Ns = [][]byte{soaRR()}
		extraRR = "authority-1"
	case 2:
		spec.Extra = [][]byte{tbench.RawRR([]byte{0}, dns.TypeTXT, dns.ClassINET, 0, []byte{1, 'x'})}
		extraRR = "additional-1"
	}

	opt, tags, malformed := tbench.GenOPT(rng, tbench.OPTGenOptions{})
	spec.OPT = opt

	family := "valid"
	large := rng.IntN(33) == 0
	if large {
		// A query that does not fit the default UDP read buffer; the UDP path
		// is skipped for it.
		if spec.OPT == nil {
			spec.OPT = &tbench.OPTSpec{UDPSize: 4096}
			tags = []string{"udpsize-le4096"}
		}
		spec.OPT.Options = append(spec.OPT.Options, tbench.Option{Code: tbench.OptPadding, Data: make([]byte, 300+rng.IntN(700))})
		tags = append(tags, "padding-large")
		family = "valid-large"
	}

	wire := spec.Wire()
	for !large && len(wire) > 512 {
		// Keep every ordinary query within 512 bytes: drop options first.
		if spec.OPT != nil && len(spec.OPT.Options) > 0 {
			spec.OPT.Options = spec.OPT.Options[:len(spec.OPT.Options)-1]
		} else {
			spec.OPT = nil
		}
		wire = spec.Wire()
	}

	if malformed {
		tags = append(tags, "expected-undecodable")
	}

	in = &input{
		family: family,
		idx:    i,
		wire:   wire,
		desc: fmt.Sprintf("name=%s qtype=%d qclass=%d flags=%#04x edns=%v extra-rr=%s reserved=%q len=%d",
			nameKind, qtype, qclass, spec.Flags, tags, extraRR, reserved, len(wire)),
	}
	in.finish()

	ednsShape := "no-edns"
	if spec.OPT != nil {
		var parts []string
		for _, t := range tags {
			if !strings.HasPrefix(t, "udpsize-") {
				parts = append(parts, t)
			}
		}
		ednsShape = "edns[" + strings.Join(parts, ",") + "]"
	}

	opcode := "query"
	if (spec.Flags>>11)&0xf == dns.OpcodeNotify {
		opcode = "notify"
	}

	in.shape = strings.Join([]string{nameKind, "qt-" + qtClass, "qc-" + qcClass, ednsShape, opcode, extraRR, "h-" + reserved}, "|")

	return in
}

// genPlain generates query i of an auxiliary list (family "slow" or "pool"): a
// well-formed query with a unique name under the given leading labels, of
// random type, class, flags and well-formed EDNS, at most 512 bytes, that H
// answers.
func genPlain(r *vkit.Run, family string, i int, salt uint16, lead ...[]byte) (in *input) {
	rng := r.Rand(family, i)
	lead = append(lead, token(family[:1], i))

	kind := tbench.NameRoot
	for kind == tbench.NameRoot {
		_, kind = tbench.GenName(rng)
	}

	qtype, _ := tbench.GenQType(rng)
	qclass, _ := tbench.GenQClass(rng)
	spec := &tbench.QuerySpec{
		ID:     permID(i, salt),
		Flags:  tbench.GenQueryFlags(rng),
		Name:   tbench.GenNameOfKind(rng, kind, lead...),
		QType:  qtype,
		QClass: qclass,
	}

	var tags []string
	spec.OPT, tags, _ = tbench.GenOPT(rng, tbench.OPTGenOptions{NoMalformed: true})
	if spec.OPT != nil {
		// Keep-alive is a protocol error on DoQ; this list is about answers.
		opts := spec.OPT.Options[:0]
		for _, o := range spec.OPT.Options {
			if o.Code != tbench.OptKeepAlive {
				opts = append(opts, o)
			}
		}
		spec.OPT.Options = opts
	}

	wire := spec.Wire()
	for len(wire) > 512 {
		if spec.OPT != nil && len(spec.OPT.Options) > 0 {
			spec.OPT.Options = spec.OPT.Options[:len(spec.OPT.Options)-1]
		} else {
			spec.OPT = nil
		}
		wire = spec.Wire()
	}

	in = &input{
		family: family,
		idx:    i,
		wire:   wire,
		desc:   fmt.Sprintf("name=%s qtype=%d qclass=%d flags=%#04x edns=%v len=%d", kind, qtype, qclass, spec.Flags, tags, len(wire)),
		shape:  family + "|" + kind,
	}

	return in.finish()
}

// probeIDBase is the first index of the ID space reserved for liveness
// probes; the hostile list must stay below it so that no two inputs sent from
// one socket share an ID.
const probeIDBase = 20000

// genProbe generates liveness probe k: a plain, valid query.
func genProbe(k int, salt uint16) (in *input) {
	q := &tbench.QuerySpec{
		ID:     permID(probeIDBase+k%(65536-probeIDBase), salt),
		Flags:  tbench.FlagRD,
		Name:   tbench.WireName(token("probe", k), []byte("Live"), []byte("test")),
		QType:  dns.TypeA,
		QClass: dns.ClassINET,
	}

	in = &input{family: "probe", idx: k, wire: q.Wire(), desc: "liveness probe", shape: "probe"}

	return in.finish()
}

// hostileBase is a valid message used as raw material for mutations.
func hostileBase(rng *rand.Rand, variant int, id uint16) (wire []byte, desc string) {
	spec := &tbench.QuerySpec{ID: id, Flags: tbench.FlagRD, QType: dns.TypeA, QClass: dns.ClassINET}
	switch variant % 4 {
	case 0:
		spec.Name = tbench.GenNameOfKind(rng, tbench.NameSimple, []byte("base"))
		desc = "simple"
	case 1:
		spec.Name = tbench.GenNameOfKind(rng, tbench.NameMixedCase, []byte("base"))
		spec.OPT = &tbench.OPTSpec{UDPSize: 1232, DO: true, Options: []tbench.Option{
			{Code: tbench.OptNSID}, {Code: tbench.OptCookie, Data: []byte{1, 2, 3, 4, 5, 6, 7, 8}},
			{Code: tbench.OptSubnet, Data: []byte{0, 1, 24, 0, 192, 0, 2}}, {Code: tbench.OptPadding, Data: make([]byte, 7)},
		}}
		desc = "edns-options"
	case 2:
		spec.Name = tbench.GenNameOfKind(rng, tbench.NameSpecial, []byte("base"))
		spec.QType = dns.TypeANY
		spec.Ns = [][]byte{soaRR()}
		desc = "special-name+authority"
	default:
		spec.Name = tbench.GenNameOfKind(rng, tbench.NameManyLabels, []byte("base"))
		spec.QType = dns.TypeTXT
		spec.QClass = dns.ClassCHAOS
		spec.OPT = &tbench.OPTSpec{UDPSize: 4096}
		desc = "many-labels+opt"
	}

	return spec.Wire(), desc
}

type headerCase struct {
	desc   string
	counts [4]uint16
	qr     bool
	opcode int
}

// genHostile generates the hostile list.
func genHostile(r *vkit.Run, salt uint16) (ins []*input) {
	add := func(family, desc string, wire, tail []byte) {
		idx := len(ins)
		wire = tbench.SetID(wire, permID(idx, salt))
		in := &input{family: family, idx: idx, wire: wire, tail: tail, desc: desc}
		in.finish()
		in.shape = family + "|" + in.cls.String()
		ins = append(ins, in)
	}

	// 1. Random bytes.
	nRandom := r.N(150, 6000)
	for j := 0; j < nRandom; j++ {
		rng := r.Rand("hostile-random", j)
		var n int
		switch k := rng.IntN(10); {
		case k < 2:
			n = rng.IntN(12)
		case k < 8:
			n = 12 + rng.IntN(70)
		default:
			n = 82 + rng.IntN(520)
		}

		b := make([]byte, n)
		for i := range b {
			b[i] = byte(rng.UintN(256))
		}

		desc := fmt.Sprintf("random len=%d", n)
		if n >= 12 && rng.IntN(2) == 0 {
			// Give the parser a plausible header so that it goes deeper.
			b = tbench.WithHeader(b, tbench.FlagRD, [4]uint16{1, 0, 0, uint16(rng.IntN(2))})
			desc += " plausible-header"
		}

		add("random", desc, b, nil)
	}

	// 2. Truncations of valid messages at every offset.
	nBases := r.N(3, 40)
	for v := 0; v < nBases; v++ {
		rng := r.Rand("hostile-truncation", v)
		base, desc := hostileBase(rng, v, 0)
		for k := 0; k < len(base); k++ {
			add("truncation", fmt.Sprintf("base=%s cut=%d/%d", desc, k, len(base)), base[:k], base[k:])
		}
	}

	// 3. Header mutations where only the header changes (counts may lie).
	var lies []headerCase
	lieCounts := [][4]uint16{{1, 0, 0, 0}}
	for pos := 0; pos < 4; pos++ {
		for _, v := range tbench.CountValues {
			c := [4]uint16{1, 0, 0, 0}
			if c[pos] == v {
				continue
			}
			c[pos] = v
			lieCounts = append(lieCounts, c)
		}
	}
	lieCounts = append(lieCounts, [4]uint16{2, 2, 2, 2}, [4]uint16{65535, 65535, 65535, 65535}, [4]uint16{0, 0, 0, 0}, [4]uint16{0, 1, 0, 0})
	for _, qr := range []bool{false, true} {
		for opcode := 0; opcode < 16; opcode++ {
			for _, c := range lieCounts {
				lies = append(lies, headerCase{qr: qr, opcode: opcode, counts: c})
			}
		}
	}

	rngLie := r.Rand("hostile-header-lie", 0)
	baseLie, _ := hostileBase(rngLie, 0, 0)
	rngLie.Shuffle(len(lies), func(i, j int) { lies[i], lies[j] = lies[j], lies[i] })
	for _, hc := range lies[:min(len(lies), r.N(170, len(lies)))] {
		bits := tbench.FlagRD
		if hc.qr {
			bits |= tbench.FlagQR
		}

		add("header-lie", fmt.Sprintf("qr=%t opcode=%d counts=%v over a 1-question body", hc.qr, hc.opcode, hc.counts),
			tbench.WithHeader(baseLie, tbench.FlagsWord(hc.opcode, bits, 0), hc.counts), nil)
	}

	// 4. Header mutations with consistent content: the sections really hold
	// 0, 1 or 2 entries.
	type consistent struct {
		qr             bool
		opcode         int
		qd, an, ns, ar int
		variant        int
	}
	var cons []consistent
	for _, qr := range []bool{false, true} {
		for opcode := 0; opcode < 16; opcode++ {
			for qd := 0; qd <= 2; qd++ {
				for an := 0; an <= 2; an++ {
					for ns := 0; ns <= 2; ns++ {
						cons = append(cons, consistent{qr: qr, opcode: opcode, qd: qd, an: an, ns: ns, ar: (qd + an + ns + opcode) % 2})
					}
				}
			}
		}
	}

	rngCons := r.Rand("hostile-header-consistent", 0)
	rngCons.Shuffle(len(cons), func(i, j int) { cons[i], cons[j] = cons[j], cons[i] })
	// Keep the interesting corner (QR clear, opcode QUERY/NOTIFY) well
	// represented whatever the sample.
	var front, back []consistent
	for _, c := range cons {
		if !c.qr && (c.opcode == dns.OpcodeQuery || c.opcode == dns.OpcodeNotify) {
			front = append(front, c)
		} else {
			back = append(back, c)
		}
	}
	// In the thorough tier the corner is repeated with other question names.
	for v := 1; v < r.N(1, 6); v++ {
		for _, c := range front[:54] {
			c.variant = v
			front = append(front, c)
		}
	}
	nFront := len(front)
	cons = append(front, back...)
	for _, c := range cons[:min(len(cons), r.N(nFront+110, len(cons)))] {
		bits := tbench.FlagRD
		if c.qr {
			bits |= tbench.FlagQR
		}

		spec := &tbench.QuerySpec{
			Flags:      tbench.FlagsWord(c.opcode, bits, 0),
			Name:       tbench.WireName([]byte("Cons"), token("v", c.variant), []byte("test")),
			QType:      dns.TypeA,
			QClass:     dns.ClassINET,
			NoQuestion: c.qd == 0,
		}
		if c.qd == 2 {
			spec.ExtraQuestions = [][]byte{tbench.QuestionWire(tbench.WireName([]byte("second"), []byte("test")), dns.TypeAAAA, dns.ClassINET)}
		}
		for i := 0; i < c.an; i++ {
			spec.Answer = append(spec.Answer, soaRR())
		}
		for i := 0; i < c.ns; i++ {
			spec.Ns = append(spec.Ns, soaRR())
		}
		if c.ar == 1 {
			spec.OPT = &tbench.OPTSpec{UDPSize: 1232}
		}

		add("header-consistent", fmt.Sprintf("qr=%t opcode=%d qd=%d an=%d ns=%d ar=%d variant=%d", c.qr, c.opcode, c.qd, c.an, c.ns, c.ar, c.variant),
			spec.Wire(), nil)
	}

	// 5. Messages longer than the default UDP read buffer: valid queries
	// padded to the size, and garbage.
	for k, size := range []int{513, 600, 1400, 4000, 514, 1232, 2000, 3000} {
		rng := r.Rand("hostile-oversize", k)
		spec := &tbench.QuerySpec{
			Flags: tbench.FlagRD, QType: dns.TypeA, QClass: dns.ClassINET,
			Name: tbench.GenNameOfKind(rng, tbench.NameMixedCase, []byte("big")),
			OPT:  &tbench.OPTSpec{UDPSize: 4096, Options: []tbench.Option{{Code: tbench.OptPadding}}},
		}
		if size <= 4000 {
			spec.OPT.Options[0].Data = make([]byte, size-len(spec.Wire()))
			add("oversize", fmt.Sprintf("valid query padded to %d bytes", size), spec.Wire(), nil)
		}

		garbage := make([]byte, size)
		for i := range garbage {
			garbage[i] = byte(rng.UintN(256))
		}
		add("oversize", fmt.Sprintf("random len=%d", size), garbage, nil)

		// A valid, complete query followed by filler: the first 512 bytes
		// hold all of it.
		filler := append(tbench.SimpleQuery(0, "Big.Filler.test.", dns.TypeA, dns.ClassINET), make([]byte, size-33)...)
		add("oversize", fmt.Sprintf("valid query followed by zeros, %d bytes", len(filler)), filler, nil)
	}

	// 6. Structural oddities.
	simple := tbench.SimpleQuery(0, "struct.test.", dns.TypeA, dns.ClassINET)
	long := &tbench.QuerySpec{Flags: tbench.FlagRD, QType: dns.TypeA, QClass: dns.ClassINET}
	for i := 0; i < 5; i++ {
		long.Name = append(long.Name, 63)
		long.Name = append(long.Name, []byte(strings.Repeat("a", 63))...)
	}
	long.Name = append(long.Name, 0)

	structural := []struct {
		desc string
		wire []byte
	}{
		{"compression pointer to itself", tbench.CompressionLoop(0)},
		{"forward compression pointer", (&tbench.QuerySpec{Flags: tbench.FlagRD, Name: []byte{0xc0, 0x40}, QType: 1, QClass: 1}).Wire()},
		{"label length 64 (reserved bits 01)", (&tbench.QuerySpec{Flags: tbench.FlagRD, Name: append([]byte{0x40}, make([]byte, 65)...), QType: 1, QClass: 1}).Wire()},
		{"name of 321 octets", long.Wire()},
		{"valid message followed by garbage", append(append([]byte(nil), simple...), 0xde, 0xad, 0xbe, 0xef)},
		{"valid message followed by a second message", append(append([]byte(nil), simple...), simple...)},
		{"header only, all counts zero", simple[:12]},
		{"header only, QDCOUNT 1", tbench.WithHeader(simple[:12], tbench.FlagRD, [4]uint16{1, 0, 0, 0})},
		{"two bytes", []byte{0, 0}},
		{"one byte", []byte{7}},
		{"empty", []byte{}},
		{"OPT with RDLENGTH beyond the message", append(append([]byte(nil), tbench.WithHeader(simple, tbench.FlagRD, [4]uint16{1, 0, 0, 1})...), 0, 0, 41, 4, 0, 0, 0, 0, 0, 0, 200)},
		{"option length beyond RDATA", (&tbench.QuerySpec{Flags: tbench.FlagRD, Name: tbench.WireNameString("struct.test."), QType: 1, QClass: 1,
			Extra: [][]byte{tbench.RawRR([]byte{0}, dns.TypeOPT, 1232, 0, []byte{0, 12, 0, 50, 0})}}).Wire()},
		{"question name cut by end of message, QDCOUNT 1", simple[:12+4]},
		{"all 0xff, 40 bytes", []byte(strings.Repeat("\xff", 40))},
		{"all zero, 40 bytes", make([]byte, 40)},
		{"IQUERY (opcode 1) with an answer and no question", (&tbench.QuerySpec{Flags: tbench.FlagsWord(1, 0, 0), NoQuestion: true, Answer: [][]byte{soaRR()}}).Wire()},
		{"UPDATE (opcode 5) with zone and update sections", (&tbench.QuerySpec{Flags: tbench.FlagsWord(5, 0, 0), Name: tbench.WireNameString("zone.test."), QType: dns.TypeSOA, QClass: 1, Ns: [][]byte{soaRR(), soaRR()}}).Wire()},
		{"three questions", (&tbench.QuerySpec{Flags: tbench.FlagRD, Name: tbench.WireNameString("q1.test."), QType: 1, QClass: 1, ExtraQuestions: [][]byte{
			tbench.QuestionWire(tbench.WireNameString("q2.test."), 1, 1), tbench.QuestionWire(tbench.WireNameString("q3.test."), 1, 1)}}).Wire()},
	}
	for _, s := range structural {
		add("structural", s.desc, s.wire, nil)
	}

	return ins
}
