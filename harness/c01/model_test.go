package c01

import (
	"bytes"
	"encoding/binary"
	"encoding/hex"
	"errors"
	"fmt"
	"sort"
	"strings"
	"time"

	"github.com/AdguardTeam/AdGuardDNS/verif/tbench"
	"github.com/miekg/dns"
)

// ---------------------------------------------------------------------------
// Classification of arbitrary bytes, computed from the bytes alone.
// ---------------------------------------------------------------------------

// inClass is the documented class of a wire input.
type inClass int

const (
	clsAccept      inClass = iota // well-formed single-question query
	clsResponse                   // QR bit set
	clsOpcode                     // opcode other than QUERY / NOTIFY
	clsCounts                     // wrong section counts
	clsOpcodeCount                // unsupported opcode AND wrong counts
	clsUndecodable                // does not parse (or shorter than a header)
)

func (c inClass) String() string {
	return [...]string{"accept", "response-bit", "opcode", "counts", "opcode+counts", "undecodable"}[c]
}

// classify computes the class of b.  The rules are the ones stated in the
// property and in the comments of the accept function: a response is ignored;
// an opcode other than QUERY and NOTIFY is not implemented; there must be
// exactly one question, at most one answer record (NOTIFY may carry a SOA) and
// at most one authority record (IXFR carries a SOA).
func classify(b []byte) (cls inClass, m *dns.Msg) {
	if len(b) < 12 {
		return clsUndecodable, nil
	}

	m = &dns.Msg{}
	if err := m.Unpack(b); err != nil {
		return clsUndecodable, nil
	}

	badOpcode := m.Opcode != dns.OpcodeQuery && m.Opcode != dns.OpcodeNotify
	badCounts := len(m.Question) != 1 || len(m.Answer) > 1 || len(m.Ns) > 1

	switch {
	case m.Response:
		return clsResponse, m
	case badOpcode && badCounts:
		return clsOpcodeCount, m
	case badOpcode:
		return clsOpcode, m
	case badCounts:
		return clsCounts, m
	default:
		return clsAccept, m
	}
}

// extensionSensitive reports whether the meaning of b depends on what follows
// it in memory: b is decoded differently (other message, other error, or no
// error at all) when zeros or tail are appended, or its own decoding fails
// because the parser ran into the end of the buffer.  Such a message is what a
// reader that looks beyond the end of the message gets wrong.
func extensionSensitive(b, tail []byte) (ok bool) {
	if len(b) < 12 {
		// Shorter than a header: sensitive as soon as a header's worth of
		// bytes follows.
		return true
	}

	m1 := &dns.Msg{}
	err1 := m1.Unpack(b)
	if err1 != nil && (errors.Is(err1, dns.ErrBuf) || strings.Contains(err1.Error(), "overflow")) {
		return true
	}

	for _, ext := range [][]byte{make([]byte, 600), make([]byte, 70000), tail} {
		if len(ext) == 0 {
			continue
		}

		m2 := &dns.Msg{}
		err2 := m2.Unpack(append(append([]byte(nil), b...), ext...))
		switch {
		case (err1 == nil) != (err2 == nil):
			return true
		case err1 != nil && err1.Error() != err2.Error():
			return true
		case err1 == nil && m1.String() != m2.String():
			return true
		}
	}

	return false
}

// ---------------------------------------------------------------------------
// Paths.
// ---------------------------------------------------------------------------

type family int

const (
	famUDP family = iota
	famStream
	famDoH
	famJSON
	famDoQ
	famDNSCryptUDP
	famDNSCryptTCP
)

// pathDef is one client path.
type pathDef struct {
	name      string
	family    family
	variant   tbench.HTTPVariant // DoH / JSON
	get       bool               // DoH GET instead of POST
	tls       bool               // stream: DoT instead of TCP
	pipelined int                // stream: queries written back to back per burst
	framing   string             // DoH POST: "" (sized), "unsized" (streamed body without a declared length), "raw-chunked" (hand-written HTTP/1.1 chunked request)
	prod      bool               // the servers run the production handler chain: no reference handler, see prodPhase
	quiet     time.Duration      // after an answer, keep reading for this long to see further responses to the same request
	split     bool               // stream: every frame is written in pieces cut at interesting byte boundaries
	halfClose bool               // stream: the client half-closes right after writing a burst of 1…pipelined queries
	thorough  bool               // only in the thorough tier
}

var allPaths = []*pathDef{
	{name: "udp", family: famUDP},
	{name: "tcp", family: famStream},
	{name: "dot", family: famStream, tls: true},
	{name: "tcp-pipelined", family: famStream, pipelined: 6},
	{name: "dot-pipelined", family: famStream, tls: true, pipelined: 6},
	{name: "tcp-split", family: famStream, split: true},
	{name: "dot-split", family: famStream, tls: true, split: true},
	{name: "tcp-halfclose", family: famStream, pipelined: 5, halfClose: true},
	{name: "dot-halfclose", family: famStream, tls: true, pipelined: 5, halfClose: true},
	{name: "doh-h2-get", family: famDoH, variant: tbench.HTTP2, get: true},
	{name: "doh-h2-post", family: famDoH, variant: tbench.HTTP2},
	{name: "doh-h1-get", family: famDoH, variant: tbench.HTTP1TLS, get: true},
	{name: "doh-h1-post", family: famDoH, variant: tbench.HTTP1TLS},
	{name: "doh-plain-get", family: famDoH, variant: tbench.HTTPPlain, get: true},
	{name: "doh-plain-post", family: famDoH, variant: tbench.HTTPPlain},
	{name: "doh-h2-post-unsized", family: famDoH, variant: tbench.HTTP2, framing: "unsized"},
	{name: "doh-h1-post-chunked", family: famDoH, variant: tbench.HTTP1TLS, framing: "unsized"},
	{name: "doh-h1-post-chunked-raw", family: famDoH, variant: tbench.HTTP1TLS, framing: "raw-chunked"},
	{name: "doh-plain-post-chunked-raw", family: famDoH, variant: tbench.HTTPPlain, framing: "raw-chunked"},
	{name: "doh-h3-post-unsized", family: famDoH, variant: tbench.HTTP3, framing: "unsized", thorough: true},
	{name: "doh-h3-get", family: famDoH, variant: tbench.HTTP3, get: true, thorough: true},
	{name: "doh-h3-post", family: famDoH, variant: tbench.HTTP3, thorough: true},
	{name: "json-h2", family: famJSON, variant: tbench.HTTP2},
	{name: "json-plain", family: famJSON, variant: tbench.HTTPPlain},
	{name: "doq", family: famDoQ},
	{name: "dnscrypt-udp", family: famDNSCryptUDP},
	{name: "dnscrypt-tcp", family: famDNSCryptTCP},
}

// ---------------------------------------------------------------------------
// Expectations.
// ---------------------------------------------------------------------------

type expKind int

const (
	// expRef: exactly one response equal to the reference after the
	// documented per-transport normalisation.
	expRef expKind = iota
	// expRcode: exactly one response with one of the given rcodes, the ID of
	// the input and no question other than one of the input's.
	expRcode
	// expServfail: exactly one SERVFAIL response with the ID and the question
	// of the input and no records.
	expServfail
	// expNothing: the transport's documented "nothing was written" treatment.
	expNothing
	// expDrop: the transport's documented treatment of undecodable input.
	expDrop
	// expQUICProtocolError: connection closed with DOQ_PROTOCOL_ERROR.
	expQUICProtocolError
	// expOne: exactly one response with the ID and the question of the
	// request, byte for byte; what it says is compared across transports only.
	expOne
)

func (k expKind) String() string {
	return [...]string{"reference-answer", "rcode", "servfail-echo", "nothing-written", "drop", "quic-protocol-error", "exactly-one-echoing-response"}[k]
}

type expectation struct {
	ref    *dns.Msg
	why    string
	tag    string // short form of why, used in violation keys
	rcodes []int
	kind   expKind
}

// minDNSCryptPlaintext is the smallest plaintext the DNSCrypt library accepts
// (header plus a minimal question, "minDNSPacketSize" in its constants).
const minDNSCryptPlaintext = 17

// expect is the expectation table.  It is written from the documentation:
//
//   - doc.go: "The server writes a SERVFAIL response if a handler returns an
//     error."
//   - accept function comments / property: response → ignore, opcode →
//     NOTIMP, counts → FORMERR.
//   - serveDNS: undecodable → "Ignore the incoming message and let the
//     connection hang" (UDP: silence).
//   - serveTCPMessage: "Nothing has been written, we should close the
//     connection in order to avoid hanging connections."
//   - serveDoH: conversion failure → 400; "If no response were written,
//     indicate it via an internal server error."
//   - serveQUICStream: unreadable message or keep-alive option → "forcibly
//     abort the connection ... DOQ_PROTOCOL_ERROR"; "Make sure that at least
//     some response has been written" (SERVFAIL).
//   - dnsCryptHandler: "If there was no response from the handler, return
//     SERVFAIL."; the DNSCrypt library drops messages that are responses, do
//     not have exactly one question, or are shorter than 17 bytes.
func expect(p *pathDef, in *input) (e expectation) {
	cls, m := in.cls, in.msg

	if p.family == famDNSCryptUDP || p.family == famDNSCryptTCP {
		switch {
		case len(in.wire) < minDNSCryptPlaintext:
			return expectation{kind: expDrop, tag: "dnscrypt-short", why: "dnscrypt: plaintext shorter than 17 bytes"}
		case m != nil && (m.Response || len(m.Question) != 1):
			return expectation{kind: expDrop, tag: "dnscrypt-library-drop", why: "dnscrypt library: response or question count != 1"}
		}
	}

	if p.family == famDoQ && m != nil && hasKeepAlive(m) {
		return expectation{kind: expQUICProtocolError, tag: "doq-keepalive", why: "doq: edns-tcp-keepalive in a query is a protocol error"}
	}

	if p.prod && cls == clsAccept {
		return expectation{kind: expOne, tag: "prod:" + in.tag, why: "production pipeline: every acceptable query gets exactly one matching answer"}
	}

	nothing := func(tag, why string) expectation {
		switch p.family {
		case famDoQ, famDNSCryptUDP, famDNSCryptTCP:
			return expectation{kind: expServfail, tag: tag, why: why + "; transport answers SERVFAIL when nothing was written"}
		default:
			return expectation{kind: expNothing, tag: tag, why: why}
		}
	}

	switch cls {
	case clsUndecodable:
		return expectation{kind: expDrop, tag: "undecodable", why: "undecodable"}
	case clsResponse:
		return nothing("response-bit", "response bit set")
	case clsOpcode:
		return expectation{kind: expRcode, tag: "opcode", rcodes: []int{dns.RcodeNotImplemented}, why: "unsupported opcode"}
	case clsCounts:
		return expectation{kind: expRcode, tag: "counts", rcodes: []int{dns.RcodeFormatError}, why: "wrong section counts"}
	case clsOpcodeCount:
		return expectation{
			kind:   expRcode,
			tag:    "opcode+counts",
			rcodes: []int{dns.RcodeNotImplemented, dns.RcodeFormatError},
			why:    "unsupported opcode and wrong section counts",
		}
	}

	kind, ref := reference(m)
	switch kind {
	case refSilent:
		return nothing("handler-silent", "handler wrote nothing")
	case refBadPack:
		// UDP, TCP and DoT pack in the handler's WriteMsg: it fails, the handler
		// returns the error and "the server writes a SERVFAIL response if a
		// handler returns an error".  DoH, DoQ and DNSCrypt record the response
		// first and pack later: DoH then "tr[ies] writing an error response just
		// in case" (500), DoQ aborts the connection with DOQ_PROTOCOL_ERROR when
		// the response cannot be packed, and the DNSCrypt library answers
		// SERVFAIL when its handler returns an error.
		switch p.family {
		case famDoH, famJSON:
			return expectation{kind: expNothing, tag: "handler-write-error", why: "response cannot be packed after it was recorded"}
		case famDoQ:
			return expectation{kind: expQUICProtocolError, tag: "handler-write-error", why: "doq: response cannot be packed"}
		default:
			return expectation{kind: expServfail, tag: "handler-write-error", why: "handler returned the writer's pack error"}
		}
	case refError, refNetErr:
		return expectation{kind: expServfail, tag: "handler-error", why: "handler returned an error"}
	default:
		return expectation{kind: expRef, tag: "handler-answered", ref: ref, why: "handler answered"}
	}
}

func hasKeepAlive(m *dns.Msg) (ok bool) {
	opt := m.IsEdns0()
	if opt == nil {
		return false
	}

	for _, o := range opt.Option {
		if o.Option() == dns.EDNS0TCPKEEPALIVE {
			return true
		}
	}

	return false
}

// ---------------------------------------------------------------------------
// Comparison of an observed response with the expectation.
// ---------------------------------------------------------------------------

// problem is one finding about an observation.
type problem struct {
	key  string
	what string
}

func packRR(rr dns.RR) (s string) {
	buf := make([]byte, dns.Len(rr)+16)
	off, err := dns.PackRR(rr, buf, 0, nil, false)
	if err != nil {
		return "unpackable:" + rr.String()
	}

	return hex.EncodeToString(buf[:off])
}

func packSection(rrs []dns.RR, skipOPT bool) (out []string) {
	out = []string{}
	for _, rr := range rrs {
		if skipOPT && rr.Header().Rrtype == dns.TypeOPT {
			continue
		}

		out = append(out, packRR(rr))
	}

	return out
}

func hdrString(m *dns.Msg, withTC bool) (s string) {
	s = fmt.Sprintf("qr=%t op=%d aa=%t rd=%t ra=%t z=%t ad=%t cd=%t rcode=%d",
		m.Response, m.Opcode, m.Authoritative, m.RecursionDesired, m.RecursionAvailable, m.Zero,
		m.AuthenticatedData, m.CheckingDisabled, m.Rcode&0xf)
	if withTC {
		s += fmt.Sprintf(" tc=%t", m.Truncated)
	}

	return s
}

func questionString(q dns.Question) (s string) {
	return fmt.Sprintf("%q/%d/%d", q.Name, q.Qtype, q.Qclass)
}

// optCanon renders the OPT record of m without the options that legitimately
// differ between transports (padding, keep-alive).
func optCanon(m *dns.Msg) (s string) {
	var opts []*dns.OPT
	for _, rr := range m.Extra {
		if o, ok := rr.(*dns.OPT); ok {
			opts = append(opts, o)
		}
	}

	if len(opts) == 0 {
		return "none"
	}

	var parts []string
	for _, o := range opts {
		var os []string
		for _, e := range o.Option {
			if c := e.Option(); c == dns.EDNS0PADDING || c == dns.EDNS0TCPKEEPALIVE {
				continue
			}

			os = append(os, fmt.Sprintf("%d:%s", e.Option(), e.String()))
		}

		parts = append(parts, fmt.Sprintf("size=%d ver=%d do=%t ttl=%08x opts=[%s]",
			o.UDPSize(), o.Version(), o.Do(), o.Hdr.Ttl, strings.Join(os, ",")))
	}

	return strings.Join(parts, " + ")
}

// canon is the cross-transport canonical form of a response.
type canon struct {
	hdr       string
	question  string
	sections  string
	opt       string
	truncated bool
}

func canonOf(m *dns.Msg, truncated bool) (c canon) {
	c = canon{hdr: hdrString(m, false), opt: optCanon(m), truncated: truncated}
	for _, q := range m.Question {
		c.question += questionString(q) + ";"
	}

	c.sections = fmt.Sprintf("an=%v ns=%v ar=%v",
		packSection(m.Answer, false), packSection(m.Ns, false), packSection(m.Extra, true))

	return c
}

// udpLimit is the documented size limit of a UDP response:
// max(512, min(advertised, configured)).
func udpLimit(req *dns.Msg, configured uint16) (limit int) {
	adv := uint16(0)
	if o := req.IsEdns0(); o != nil {
		adv = o.UDPSize()
	}

	return int(max(min(adv, configured), 512))
}

// truncationSlack is the tolerance, in bytes, of the harness' own size
// estimate when it decides whether a truncation was necessary.
const truncationSlack = 32

// checkEchoes checks ID and question against the input; these hold for every
// response whatever its rcode.
func checkEchoes(in *input, raw []byte, resp *dns.Msg, needQuestion bool) (ps []problem) {
	if len(in.wire) >= 2 && !bytes.Equal(raw[:2], in.wire[:2]) {
		ps = append(ps, problem{"id-mismatch", fmt.Sprintf("response ID %#04x, request ID %#04x",
			binary.BigEndian.Uint16(raw), binary.BigEndian.Uint16(in.wire))})
	}

	if !resp.Response {
		ps = append(ps, problem{"qr-clear", "the response does not have the QR bit set"})
	}

	var own []dns.Question
	if in.msg != nil {
		own = in.msg.Question
	}

	for _, q := range resp.Question {
		found := false
		for _, o := range own {
			if o == q {
				found = true
			}
		}

		if !found {
			ps = append(ps, problem{"foreign-question", fmt.Sprintf(
				"response carries question %s which is not in the request (%d own questions)", questionString(q), len(own))})
		}
	}

	if needQuestion {
		switch {
		case len(own) != 1:
			// Not applicable.
		case len(resp.Question) != 1:
			ps = append(ps, problem{"question-missing", fmt.Sprintf("response has %d questions, want the request's one", len(resp.Question))})
		case resp.Question[0] != own[0]:
			ps = append(ps, problem{"question-mismatch", fmt.Sprintf("response question %s, request question %s",
				questionString(resp.Question[0]), questionString(own[0]))})
		}
	}

	return ps
}

// checkAgainstRef compares an observed response with the reference response.
// limitLo is the size above which a truncation is justified on this path (0:
// the path never truncates); it returns the canonical form for the
// cross-transport comparison and a note ("", "truncated", "ambiguous").
func checkAgainstRef(in *input, raw []byte, ref *dns.Msg, limitLo int) (ps []problem, c canon, note string) {
	resp := &dns.Msg{}
	if err := resp.Unpack(raw); err != nil {
		return []problem{{"response-undecodable", "the response does not parse: " + err.Error()}}, canon{}, ""
	}

	ps = checkEchoes(in, raw, resp, true)

	if got, want := hdrString(resp, false), hdrString(ref, false); got != want {
		ps = append(ps, problem{"header-mismatch", fmt.Sprintf("header %q, reference %q", got, want)})
	}

	nOpt := 0
	for _, rr := range resp.Extra {
		if rr.Header().Rrtype == dns.TypeOPT {
			nOpt++
		}
	}
	if nOpt > 1 {
		ps = append(ps, problem{"opt-duplicated", fmt.Sprintf("response carries %d OPT records", nOpt)})
	}

	gotAn, gotNs, gotAr := packSection(resp.Answer, false), packSection(resp.Ns, false), packSection(resp.Extra, true)
	refAn, refNs, refAr := packSection(ref.Answer, false), packSection(ref.Ns, false), packSection(ref.Extra, true)

	full := equalStrings(gotAn, refAn) && equalStrings(gotNs, refNs) && equalStrings(gotAr, refAr)
	switch {
	case full && resp.Truncated == ref.Truncated:
		return ps, canonOf(resp, false), ""
	case full:
		ps = append(ps, problem{"tc-mismatch", fmt.Sprintf("TC=%t with all records present, reference TC=%t", resp.Truncated, ref.Truncated)})

		return ps, canonOf(resp, false), ""
	case !resp.Truncated || limitLo == 0:
		ps = append(ps, problem{"records-mismatch", fmt.Sprintf(
			"sections differ from the reference (TC=%t): got an=%d ns=%d ar=%d, reference an=%d ns=%d ar=%d; first difference: %s",
			resp.Truncated, len(gotAn), len(gotNs), len(gotAr), len(refAn), len(refNs), len(refAr),
			firstDiff(resp, ref))})

		return ps, canonOf(resp, false), ""
	}

	// Truncated on a size-limited path: the answer section must be empty, the
	// rest must be a prefix of the reference, and it must have been necessary.
	note = "truncated"
	if len(gotAn) != 0 {
		ps = append(ps, problem{"truncated-with-answers", fmt.Sprintf("TC set but %d answer records kept", len(gotAn))})
	}
	if !isPrefix(gotNs, refNs) || !isPrefix(gotAr, refAr) {
		ps = append(ps, problem{"truncated-foreign-records", "TC set and the remaining records are not a prefix of the reference sections"})
	}

	fullMsg := ref.Copy()
	for _, rr := range resp.Extra {
		if rr.Header().Rrtype == dns.TypeOPT {
			fullMsg.Extra = append(fullMsg.Extra, dns.Copy(rr))
		}
	}
	fullMsg.Compress = true
	// Two estimates of the size of the complete response (the library's
	// length computation and an actual packing, both with compression); the
	// larger one decides, so that an estimate that is a few bytes off cannot
	// turn into an accusation.
	size := fullMsg.Len()
	if packed, err := fullMsg.Pack(); err == nil && len(packed) > size {
		size = len(packed)
	}

	switch {
	case size > limitLo:
		// Necessary.
	case size > limitLo-truncationSlack:
		note = "ambiguous"
	default:
		ps = append(ps, problem{"truncated-although-fits", fmt.Sprintf(
			"TC set and records dropped although the full response takes %d bytes and the limit is %d", size, limitLo)})
	}

	return ps, canonOf(resp, true), note
}

func firstDiff(resp, ref *dns.Msg) (s string) {
	secs := []struct {
		name     string
		got, ref []dns.RR
	}{{"answer", resp.Answer, ref.Answer}, {"authority", resp.Ns, ref.Ns}, {"additional", nonOPT(resp.Extra), nonOPT(ref.Extra)}}
	for _, sec := range secs {
		for i := 0; i < len(sec.got) || i < len(sec.ref); i++ {
			var g, r string
			if i < len(sec.got) {
				g = sec.got[i].String()
			}
			if i < len(sec.ref) {
				r = sec.ref[i].String()
			}
			if g != r || (g != "" && packRR(sec.got[i]) != packRR(sec.ref[i])) {
				return fmt.Sprintf("%s[%d]: got %q, reference %q", sec.name, i, g, r)
			}
		}
	}

	return "none"
}

func nonOPT(rrs []dns.RR) (out []dns.RR) {
	for _, rr := range rrs {
		if rr.Header().Rrtype != dns.TypeOPT {
			out = append(out, rr)
		}
	}

	return out
}

func equalStrings(a, b []string) (ok bool) {
	if len(a) != len(b) {
		return false
	}

	for i := range a {
		if a[i] != b[i] {
			return false
		}
	}

	return true
}

func isPrefix(p, full []string) (ok bool) {
	return len(p) <= len(full) && equalStrings(p, full[:len(p)])
}

// checkRcodeResponse checks a response to a non-acceptable input that the
// documentation says must be answered with an error code.
func checkRcodeResponse(in *input, raw []byte, rcodes []int, needQuestion, noRecords bool) (ps []problem) {
	resp := &dns.Msg{}
	if err := resp.Unpack(raw); err != nil {
		return []problem{{"response-undecodable", "the response does not parse: " + err.Error()}}
	}

	ps = checkEchoes(in, raw, resp, needQuestion)

	ok := false
	for _, rc := range rcodes {
		if resp.Rcode&0xf == rc {
			ok = true
		}
	}
	if !ok {
		names := []string{}
		for _, rc := range rcodes {
			names = append(names, dns.RcodeToString[rc])
		}
		sort.Strings(names)
		ps = append(ps, problem{"wrong-rcode", fmt.Sprintf("rcode %s, documented %s",
			dns.RcodeToString[resp.Rcode&0xf], strings.Join(names, " or "))})
	}

	if noRecords && len(resp.Answer)+len(resp.Ns)+len(nonOPT(resp.Extra)) > 0 {
		ps = append(ps, problem{"error-response-with-records", fmt.Sprintf(
			"error response carries records: an=%d ns=%d ar=%d", len(resp.Answer), len(resp.Ns), len(nonOPT(resp.Extra)))})
	}

	return ps
}
