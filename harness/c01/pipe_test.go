package c01

import (
	"context"
	"encoding/binary"
	"fmt"
	"strings"
	"sync"
	"sync/atomic"
	"time"

	"github.com/AdguardTeam/AdGuardDNS/internal/dnsserver"
	"github.com/AdguardTeam/AdGuardDNS/verif/tbench"
	"github.com/miekg/dns"
)

// labelGate marks names for which the gated handler parks until the harness
// opens the gate named by the second label.
const labelGate = "hgate"

// gate lets the harness hold queries inside the handler.
type gate struct {
	entered chan struct{}
	release chan struct{}
}

var gates sync.Map // token → *gate

// gatedHandler is H, except that it parks the queries of an open trial.
func gatedHandler() dnsserver.Handler {
	return dnsserver.HandlerFunc(func(ctx context.Context, rw dnsserver.ResponseWriter, req *dns.Msg) error {
		hInvocations.Add(1)

		if len(req.Question) == 1 {
			labels := dns.SplitDomainName(req.Question[0].Name)
			if len(labels) >= 2 && strings.EqualFold(labels[0], labelGate) {
				if v, ok := gates.Load(strings.ToLower(labels[1])); ok {
					g := v.(*gate)
					g.entered <- struct{}{}
					<-g.release
				}
			}
		}

		return hServe(ctx, rw, req)
	})
}

const (
	// pipeCtxTimeout is the request-context timeout of the servers of this
	// phase (production configures one as well).
	pipeCtxTimeout = 2 * time.Second
	// pipeDecisive: these servers only close a connection on their own after
	// the 10 s read timeout, so a close within 5 s of the last write cannot be
	// a read timeout.
	pipeDecisive = 5 * time.Second
)

// pipePhase checks that the pipeline limit, documented as per connection,
// does not make queries on other connections wait: while connection A holds
// MaxPipelineCount queries inside the handler, ordinary queries on fresh
// connections B and C must be answered; then A gets its answers.
func (e *env) pipePhase() (ok bool) {
	r := e.r
	trials := r.N(5, 25)

	wg := &sync.WaitGroup{}
	for _, n := range []uint{1, 2} {
		b, err := tbench.Start(tbench.Config{
			Handler:        gatedHandler(),
			Metrics:        newProdMetrics(&tbench.CountingMetrics{}),
			RequestContext: dnsserver.NewTimeoutContextConstructor(pipeCtxTimeout),
			Only:           []tbench.Server{tbench.SrvDNS, tbench.SrvDoT},
			DNS:            tbench.StreamOptions{MaxPipelineEnabled: true, MaxPipelineCount: n, ReadTimeout: serverReadTimeout},
			DoT:            tbench.StreamOptions{MaxPipelineEnabled: true, MaxPipelineCount: n, ReadTimeout: serverReadTimeout},
		})
		if err != nil {
			r.Inconclusive("cannot start the pipeline-limit bench: " + err.Error())

			return false
		}
		defer func() { _ = b.Close() }()

		e3 := &env{
			r: r, b: b, http: map[tbench.HTTPVariant]*tbench.HTTPClient{},
			answerWait: e.answerWait, udpWait: e.udpWait, silenceWait: e.silenceWait, salt: e.salt,
			canons: map[int]map[string]canon{}, wantSamples: map[string]struct{}{},
			decisive: pipeDecisive,
		}

		for _, p := range []*pathDef{
			{name: "pipelimit-tcp", family: famStream},
			{name: "pipelimit-dot", family: famStream, tls: true},
		} {
			wg.Add(1)
			go func(p *pathDef, n int) {
				defer wg.Done()
				defer func() {
					if v := recover(); v != nil {
						r.Inconclusive(fmt.Sprintf("harness panic in pipeline-limit worker %s: %v", p.name, v))
					}
				}()

				for t := 0; t < trials; t++ {
					e3.pipeTrial(p, n, t)
				}
			}(p, int(n))
		}
	}

	wg.Wait()

	for _, name := range []string{"pipelimit-tcp", "pipelimit-dot"} {
		for _, n := range []int{1, 2} {
			r.Require(fmt.Sprintf("pipelimit_trials:%s:n=%d", name, n), int64(trials))
		}
		r.Require("path:"+name+":accept/handler-answered", int64(trials*4))
	}

	return true
}

func (e *env) pipeTrial(p *pathDef, n, t int) {
	tok := fmt.Sprintf("g%d%s%d", n, map[bool]string{false: "t", true: "s"}[p.tls], t)
	g := &gate{entered: make(chan struct{}, 8), release: make(chan struct{})}
	gates.Store(tok, g)
	released := false
	release := func() {
		if !released {
			released = true
			close(g.release)
		}
	}
	defer gates.Delete(tok)
	defer release()

	base := (n*2+map[bool]int{false: 0, true: 1}[p.tls])*1000 + t*10

	// Connection A: n queries that stay in the handler.
	var gated []*input
	var frames []byte
	for j := 0; j < n; j++ {
		q := &tbench.QuerySpec{
			ID: permID(base+j, e.salt), Flags: tbench.FlagRD, QType: dns.TypeA, QClass: dns.ClassINET,
			Name: tbench.WireName([]byte("HGate"), []byte(tok), token("q", j), []byte("test")),
		}
		in := (&input{family: "pipe-gated", idx: base + j, wire: q.Wire(), shape: "pipe-gated",
			desc: fmt.Sprintf("held in the handler, trial %d, limit %d", t, n)}).finish()
		gated = append(gated, in)
		frames = append(frames, tbench.Frame(in.wire)...)
	}

	var a *tbench.StreamClient
	var err error
	if p.tls {
		a, err = e.b.DialDoT()
	} else {
		a, err = e.b.DialTCP()
	}
	if err != nil {
		e.infraFailure(p.name+":dial", err)

		return
	}
	defer func() { _ = a.Close() }()

	start := time.Now()
	err = a.WriteRaw(frames)
	if err != nil {
		e.infraFailure(p.name+":write", err)

		return
	}

	for j := 0; j < n; j++ {
		select {
		case <-g.entered:
		case <-time.After(10 * time.Second):
			// The limit admits n queries; if they do not reach the handler the
			// trial cannot be run.
			e.r.Bucket("ambiguous:pipelimit-gated-queries-did-not-enter", 1)

			return
		}
	}

	// Connections B and C: ordinary queries, each on a fresh connection, while
	// A's queries are in flight.
	for k := 0; k < 2; k++ {
		s := &streamSession{e: e, p: p}
		in := genPlain(e.r, "pipe", base+2+k, e.salt)
		e.evalOne(p, s, in)
		s.finish()
	}

	held := time.Since(start)
	release()

	// A's answers.
	byID := map[uint16]int{}
	obs := make([]observation, n)
	for j, in := range gated {
		byID[binary.BigEndian.Uint16(in.wire)] = j
	}
	for j := 0; j < n; j++ {
		res := a.Read(e.answerWait)
		if res.Outcome != tbench.Answered {
			for i := range obs {
				if obs[i].res.Outcome == "" {
					obs[i].res = res
				}
			}

			break
		}

		raw := res.Responses[0]
		if i, found := byID[binary.BigEndian.Uint16(raw)]; found && len(raw) >= 2 && obs[i].res.Outcome == "" {
			obs[i].res = res
		} else {
			e.r.Violation("any:"+p.name+":foreign-id", "a response arrived whose ID belongs to no outstanding request of the connection",
				map[string]any{"path": p.name, "frame_hex": fmt.Sprintf("%x", raw), "decoded": decodeForWitness(raw)})
		}
	}

	for j, in := range gated {
		if held > pipeCtxTimeout/2 {
			// The request context of the held queries may have expired before
			// the harness opened the gate; their fate says nothing.
			obs[j].ambiguous = fmt.Sprintf("held for %s", held)
		}
		if obs[j].res.Outcome == "" {
			obs[j].res = tbench.Result{Outcome: tbench.Timeout, Err: "no response with this ID"}
		}

		e.account(p, in, expect(p, in), obs[j])
	}

	e.r.Bucket(fmt.Sprintf("pipelimit_trials:%s:n=%d", p.name, n), 1)
}

// doqLongLived sends many more queries than the per-connection stream limit
// (100) one after the other over single DoQ connections, closing the send side
// of each stream a few milliseconds after the query was written, so that the
// FIN travels in a later packet than the query.  Every query must be answered.
func (e *env) doqLongLived() {
	r := e.r
	p := &pathDef{name: "doq-long-lived", family: famDoQ}

	const (
		conns    = 2
		finDelay = 5 * time.Millisecond
	)
	perConn := r.N(160, 500)

	var mu sync.Mutex
	maxAttempted := 0

	wg := &sync.WaitGroup{}
	for c := 0; c < conns; c++ {
		wg.Add(1)
		go func(c int) {
			defer wg.Done()
			defer func() {
				if v := recover(); v != nil {
					r.Inconclusive(fmt.Sprintf("harness panic in the long-lived DoQ worker: %v", v))
				}
			}()

			qc, err := e.b.DialDoQ()
			if err != nil {
				e.infraFailure(p.name+":dial", err)

				return
			}
			defer func() { _ = qc.Close() }()

			attempted := 0
			for j := 0; j < perConn; j++ {
				in := genPlain(r, "long", c*perConn+j, e.salt)
				exp := expect(p, in)

				attempted++
				o := observation{res: qc.ExchangeLateFIN(in.wire, finDelay, e.answerWait)}
				if o.res.Outcome == tbench.QUICError &&
					(o.res.QUICKind != "application" || !o.res.QUICRemote || o.res.SendElapsed > decisiveWindow) {
					// Idle timeouts and the like, or the harness itself took
					// longer than the server allows a stream to deliver its
					// query.
					o.ambiguous = "QUIC connection failed: " + o.res.String()
				}

				e.account(p, in, exp, o)
				if o.res.Outcome != tbench.Answered {
					// The connection is of no further use; one report is enough.
					break
				}
			}

			mu.Lock()
			maxAttempted = max(maxAttempted, attempted)
			mu.Unlock()
		}(c)
	}

	wg.Wait()

	r.Bucket("doq_long_lived_max_streams_attempted_on_one_connection", int64(maxAttempted))
	r.Require("doq_long_lived_max_streams_attempted_on_one_connection", 101)
}

// labelPark marks names for which the parking handler waits for the harness.
const labelPark = "hpark"

// poolBurst holds more than 10 000 queries inside the handler of ONE plain-DNS
// server at the same instant (its UDP and TCP listeners share one worker pool),
// sends an ordinary query over TCP meanwhile, releases them, and then probes
// both listeners: a burst may cost the queries of the burst something, but it
// can not take a listener down.
func (e *env) poolBurst() {
	r := e.r
	began := time.Now()
	defer func() { r.Extra("pool_burst_seconds", time.Since(began).Seconds()) }()

	const (
		total   = 10300
		sockets = 8
		batch   = 100
	)

	var entered atomic.Int64
	release := make(chan struct{})
	released := false
	open := func() {
		if !released {
			released = true
			close(release)
		}
	}
	defer open()

	h := dnsserver.HandlerFunc(func(ctx context.Context, rw dnsserver.ResponseWriter, req *dns.Msg) error {
		hInvocations.Add(1)
		if len(req.Question) == 1 && strings.EqualFold(firstLabel(req.Question[0].Name), labelPark) {
			entered.Add(1)
			<-release
		}

		return hServe(ctx, rw, req)
	})

	b, err := tbench.Start(tbench.Config{
		Handler: h,
		Metrics: newProdMetrics(&tbench.CountingMetrics{}),
		Only:    []tbench.Server{tbench.SrvDNS},
		DNS:     tbench.StreamOptions{MaxUDPRespSize: configuredUDPMax, ReadTimeout: serverReadTimeout},
	})
	if err != nil {
		r.Inconclusive("cannot start the burst bench: " + err.Error())

		return
	}
	defer func() { _ = b.Close() }()

	e5 := &env{
		r: r, b: b, http: map[tbench.HTTPVariant]*tbench.HTTPClient{},
		answerWait: e.answerWait, udpWait: e.udpWait, silenceWait: e.silenceWait, salt: e.salt,
		canons: map[int]map[string]canon{}, wantSamples: map[string]struct{}{},
	}
	pUDP := &pathDef{name: "burst-udp", family: famUDP}
	pTCP := &pathDef{name: "burst-tcp", family: famStream}

	socks := make([]*tbench.UDPClient, sockets)
	for i := range socks {
		socks[i], err = b.DialUDP()
		if err != nil {
			r.Inconclusive("burst: cannot open a client socket: " + err.Error())

			return
		}
		defer func(c *tbench.UDPClient) { _ = c.Close() }(socks[i])
	}

	// Park the queries, batch by batch, waiting until the handler has seen each
	// batch so that nothing waits in a socket buffer.
	sent := 0
	stalled := false
	for sent < total && !stalled {
		for k := 0; k < batch && sent < total; k++ {
			q := tbench.QuerySpec{
				ID: permID(sent, e.salt), Flags: tbench.FlagRD, QType: dns.TypeA, QClass: dns.ClassINET,
				Name: tbench.WireName([]byte(labelPark), token("b", sent), []byte("test")),
			}
			if sErr := socks[sent%sockets].Send(q.Wire()); sErr != nil {
				// ECONNREFUSED: the listener is gone already.
				stalled = true

				break
			}
			sent++
		}

		deadline := time.Now().Add(5 * time.Second)
		for entered.Load() < int64(sent) {
			if time.Now().After(deadline) {
				// The server does not take the datagrams (any more).
				stalled = true

				break
			}

			time.Sleep(time.Millisecond)
		}
	}

	r.Bucket("pool_burst_datagrams_sent", int64(sent))
	r.Bucket("pool_burst_handlers_busy_at_once", entered.Load())

	// While the handlers are busy: an ordinary query over TCP.
	tcp := &streamSession{e: e5, p: pTCP}
	e5.evalOne(pTCP, tcp, genPlain(r, "burst", 0, e.salt))
	tcp.finish()

	open()

	// The answers of the burst: whatever arrives must belong to a query of
	// its socket and come once; a missing one may have been lost in a socket
	// buffer and is only counted.
	seen := map[uint16]int{}
	answered := 0
	for _, c := range socks {
		for _, d := range c.Drain(300 * time.Millisecond) {
			if len(d) < 2 {
				continue
			}

			id := binary.BigEndian.Uint16(d)
			seen[id]++
			answered++
		}
	}

	valid := map[uint16]bool{}
	for i := 0; i < sent; i++ {
		valid[permID(i, e.salt)] = true
	}
	for id, n := range seen {
		switch {
		case !valid[id]:
			r.Violation("any:burst-udp:foreign-id", "a response arrived whose ID was never sent", map[string]any{"id": id})
		case n > 1:
			r.Violation("accept:burst-udp:extra-response", "more than one response arrived for one query of the burst", map[string]any{"id": id, "responses": n})
		}
	}
	r.Bucket("pool_burst_answers_received", int64(answered))

	// After the burst both listeners must answer.
	for k := 0; k < 3; k++ {
		us, sErr := e5.newSession(pUDP)
		if sErr != nil {
			e5.infraFailure("burst-udp:session", sErr)

			continue
		}
		e5.evalOne(pUDP, us, e.nextProbe())
		us.finish()

		ts := &streamSession{e: e5, p: pTCP}
		e5.evalOne(pTCP, ts, e.nextProbe())
		ts.finish()
	}

	e5.mu.Lock()
	infra := e5.infra
	e5.mu.Unlock()
	e.mu.Lock()
	e.infra += infra
	e.mu.Unlock()

	r.Require("pool_burst_datagrams_sent", 10001)
	r.Require("path:burst-udp:liveness", 3)
	r.Require("path:burst-tcp:liveness", 3)
}
