package c01

import (
	"bytes"
	"encoding/binary"
	"encoding/json"
	"errors"
	"fmt"
	"net/url"
	"strconv"
	"strings"
	"sync"
	"sync/atomic"
	"syscall"
	"time"

	"github.com/AdguardTeam/AdGuardDNS/verif/tbench"
	"github.com/AdguardTeam/AdGuardDNS/verif/vkit"
	"github.com/miekg/dns"
)

// configuredUDPMax is the MaxUDPRespSize the plain-DNS server is started with.
const configuredUDPMax = 4096

// udpReadBuffer is the default (and production) ConfigDNS.UDPSize, which the
// benches keep.
const udpReadBuffer = 512

// serverReadTimeout is the read timeout the plain-DNS and DoT servers are
// started with; decisiveWindow is how recently the harness must have written
// on a connection for a close by the server to be impossible to explain by any
// server-side read timeout (the smallest one is the DNSCrypt library's 2 s).
const (
	serverReadTimeout = 10 * time.Second
	decisiveWindow    = time.Second
)

type env struct {
	r *vkit.Run
	b *tbench.Bench

	http map[tbench.HTTPVariant]*tbench.HTTPClient

	// answerWait bounds the wait for an expected answer on streams, HTTP and
	// QUIC; udpWait is the wait per transmission on datagram transports (a
	// query is transmitted up to three times); silenceWait is for how long a
	// datagram socket is watched when nothing is expected.
	answerWait  time.Duration
	udpWait     time.Duration
	silenceWait time.Duration

	probeCounter atomic.Int64
	salt         uint16

	// decisive overrides decisiveWindow when not zero.
	decisive time.Duration

	// inflight, if not nil, measures how many exchanges of one path overlap.
	inflight *concurrency

	mu          sync.Mutex
	prodFound   []prodFinding
	canons      map[int]map[string]canon
	wantSamples map[string]struct{}
	infra       int
}

// window returns how recently the harness must have written on a connection
// for a close by the server to be inexplicable by a server-side read timeout.
func (e *env) window() time.Duration {
	if e.decisive != 0 {
		return e.decisive
	}

	return decisiveWindow
}

func (e *env) infraFailure(where string, err error) {
	e.mu.Lock()
	e.infra++
	n := e.infra
	e.mu.Unlock()

	e.r.Bucket("infra_failure:"+where, 1)
	if n == 1 {
		e.r.Extra("first_infra_failure", fmt.Sprintf("%s: %v", where, err))
	}
}

// observation is what a session saw for one input.
type observation struct {
	res tbench.Result
	// ambiguous, if not empty, says why the observation cannot be judged.
	ambiguous string
	// skipped, if not empty, says why the input was not sent on this path.
	skipped string
	// elapsed is how long the exchange took.
	elapsed time.Duration
}

type session interface {
	exchange(in *input, wantAnswer bool) observation
	finish()
}

// ---------------------------------------------------------------------------
// Datagram sessions (plain UDP and DNSCrypt over UDP).
// ---------------------------------------------------------------------------

type sentRec struct {
	in            *input
	wantAnswer    bool
	transmissions int
	responses     int
}

type udpSession struct {
	e    *env
	p    *pathDef
	udp  *tbench.UDPClient
	dc   *tbench.DNSCryptClient
	sent map[uint16]*sentRec
}

func (s *udpSession) send(b []byte) error {
	if s.dc != nil {
		return s.dc.Send(b)
	}

	return s.udp.Send(b)
}

func (s *udpSession) recv(wait time.Duration) (b []byte, err error) {
	if s.dc == nil {
		return s.udp.Recv(wait)
	}

	b, _, undecryptable, err := s.dc.Recv(wait)
	if err == nil && undecryptable {
		s.e.r.Violation("any:"+s.p.name+":undecryptable-packet", "the DNSCrypt server sent a packet that does not decrypt with the session key",
			map[string]any{"path": s.p.name, "packet_hex": fmt.Sprintf("%x", b)})

		return nil, tbench.ErrTimeout
	}

	return b, err
}

func (s *udpSession) exchange(in *input, wantAnswer bool) (o observation) {
	if s.p.family == famDNSCryptUDP && len(in.wire) > 1000 {
		return observation{skipped: "larger than the DNSCrypt library's UDP read buffer"}
	}

	rec := &sentRec{in: in, wantAnswer: wantAnswer}
	hasID := len(in.wire) >= 2
	var id uint16
	if hasID {
		id = binary.BigEndian.Uint16(in.wire)
		s.sent[id] = rec
	}

	tries, wait := 1, s.e.silenceWait
	if wantAnswer {
		tries, wait = 3, s.e.udpWait
	}

	for t := 0; t < tries; t++ {
		rec.transmissions++
		if t > 0 {
			s.e.r.Bucket("udp_retransmissions:"+s.p.name, 1)
		}

		err := s.send(in.wire)
		if errors.Is(err, syscall.ECONNREFUSED) {
			// The socket is connected to the listener, so this is the ICMP
			// answer to an earlier datagram: nothing listens there any more.
			return observation{res: tbench.Result{Outcome: tbench.Failed, Err: "listener gone: " + err.Error()}}
		} else if err != nil {
			s.e.infraFailure(s.p.name+":send", err)

			return observation{ambiguous: "send failed: " + err.Error()}
		}

		deadline := time.Now().Add(wait)
		for {
			left := time.Until(deadline)
			if left <= 0 {
				break
			}

			d, rErr := s.recv(left)
			if rErr == tbench.ErrTimeout {
				break
			} else if errors.Is(rErr, syscall.ECONNREFUSED) {
				return observation{res: tbench.Result{Outcome: tbench.Failed, Err: "listener gone: " + rErr.Error()}}
			} else if rErr != nil {
				s.e.infraFailure(s.p.name+":recv", rErr)

				return observation{ambiguous: "receive failed: " + rErr.Error()}
			}

			if hasID && len(d) >= 2 && binary.BigEndian.Uint16(d) == id {
				rec.responses++
				if rec.responses > 1 {
					s.extra(rec, d)

					continue
				}

				o.res = tbench.Result{Outcome: tbench.Answered, Responses: [][]byte{d}, WireLens: []int{len(d)}}
				for s.p.quiet > 0 {
					// Read until quiet: a datagram with the same ID is a
					// further response to this request.
					more, qErr := s.recv(s.p.quiet)
					if qErr != nil {
						break
					}

					if len(more) >= 2 && binary.BigEndian.Uint16(more) == id && t == 0 {
						rec.responses++
						o.res.Responses = append(o.res.Responses, more)
						o.res.WireLens = append(o.res.WireLens, len(more))
					} else {
						s.attribute(more)
					}
				}
				if t > 0 {
					// Answered only after a retransmission: either the
					// datagram or the answer was lost, or the server dropped a
					// query.  Not decidable from here.
					s.e.r.Bucket("ambiguous:udp-answered-after-retransmission", 1)
				}

				return o
			}

			s.attribute(d)
		}
	}

	return observation{res: tbench.Result{Outcome: tbench.Silence}}
}

// attribute handles a datagram that is not the response awaited right now.
func (s *udpSession) attribute(d []byte) {
	if len(d) < 2 {
		s.e.r.Violation("any:"+s.p.name+":runt-response", "a datagram shorter than an ID arrived",
			map[string]any{"path": s.p.name, "datagram_hex": fmt.Sprintf("%x", d)})

		return
	}

	rec := s.sent[binary.BigEndian.Uint16(d)]
	if rec == nil {
		s.e.r.Violation("any:"+s.p.name+":foreign-id", "a response arrived whose ID was never sent from this socket",
			map[string]any{"path": s.p.name, "datagram_hex": fmt.Sprintf("%x", d), "decoded": decodeForWitness(d)})

		return
	}

	rec.responses++
	if rec.responses > rec.transmissions || !rec.wantAnswer {
		s.extra(rec, d)
	}
}

func (s *udpSession) extra(rec *sentRec, d []byte) {
	key, what := "extra-response", "more responses than transmissions arrived for one request"
	if !rec.wantAnswer {
		key, what = "late-unexpected-response", "a response arrived (late) for an input that must not be answered"
	}

	if rec.in.family == "prod" && rec.in.cls == clsAccept {
		s.e.prodProblem(rec.in, s.p.name, key, what, tbench.Result{Outcome: tbench.Answered, Responses: [][]byte{d}})

		return
	}

	w := rec.in.witness()
	w["path"] = s.p.name
	w["transmissions"] = rec.transmissions
	w["responses"] = rec.responses
	w["datagram_hex"] = fmt.Sprintf("%x", d)
	w["decoded"] = decodeForWitness(d)
	s.e.r.Violation(groupOf(rec.in)+":"+s.p.name+":"+key, what, w)
}

func (s *udpSession) finish() {
	for {
		d, err := s.recv(300 * time.Millisecond)
		if err != nil {
			break
		}

		s.attribute(d)
	}

	if s.dc != nil {
		_ = s.dc.Close()
	} else {
		_ = s.udp.Close()
	}
}

// ---------------------------------------------------------------------------
// Stream sessions (TCP, DoT, DNSCrypt over TCP).
// ---------------------------------------------------------------------------

type streamSession struct {
	e  *env
	p  *pathDef
	c  *tbench.StreamClient
	dc *tbench.DNSCryptClient
}

func (s *streamSession) ensure() (err error) {
	switch {
	case s.p.family == famDNSCryptTCP && s.dc == nil:
		s.dc, err = s.e.b.DialDNSCrypt("tcp")
	case s.p.family == famDNSCryptTCP && s.dc.Stream() == nil:
		err = s.dc.Reconnect()
	case s.p.family == famDNSCryptTCP:
		// Connected.
	case s.c != nil:
		// Connected.
	case s.p.tls:
		s.c, err = s.e.b.DialDoT()
	default:
		s.c, err = s.e.b.DialTCP()
	}

	return err
}

func (s *streamSession) drop() {
	if s.dc != nil {
		_ = s.dc.Close()
	}
	if s.c != nil {
		_ = s.c.Close()
		s.c = nil
	}
}

func (s *streamSession) stream() *tbench.StreamClient {
	if s.dc != nil {
		return s.dc.Stream()
	}

	return s.c
}

func (s *streamSession) exchange(in *input, wantAnswer bool) (o observation) {
	for attempt := 0; ; attempt++ {
		err := s.ensure()
		if err != nil {
			s.e.infraFailure(s.p.name+":dial", err)
			if attempt < 2 {
				time.Sleep(100 * time.Millisecond)

				continue
			}

			return observation{ambiguous: "dial failed: " + err.Error()}
		}

		// The server started waiting for this message at the earliest when
		// the previous write began (or the connection was dialled).
		since := s.stream().LastWriteStart

		// Waiting for a connection to be closed costs the whole wait when the
		// server leaves it open; that wait is somewhat shorter.
		wait := s.e.answerWait
		if !wantAnswer {
			wait = s.e.answerWait * 6 / 10
		}

		switch {
		case s.dc != nil:
			o.res = s.dc.Exchange(in.wire, wait)
		case s.p.split:
			pieces, kind := splitFrame(in)
			s.e.r.Bucket("split:"+kind+":"+s.p.name, 1)
			o.res = s.c.ExchangePieces(pieces, splitPause, wait)
		default:
			o.res = s.c.Exchange(in.wire, wait)
		}

		if o.res.Outcome == tbench.Answered && s.p.quiet > 0 && s.dc == nil {
			// Read until quiet: anything that follows is a further response to
			// this request.
			for {
				more, _, rErr := s.c.ReadFrame(s.p.quiet)
				if rErr != nil {
					if rErr == tbench.ErrClosed {
						s.drop()
					}

					break
				}

				o.res.Responses = append(o.res.Responses, more)
				o.res.WireLens = append(o.res.WireLens, len(more))
			}
		}

		if o.res.Outcome == tbench.Answered {
			if s.stream() == nil {
				return o
			}

			if raw := o.res.Responses[0]; len(raw) < 2 || len(in.wire) < 2 || raw[0] != in.wire[0] || raw[1] != in.wire[1] {
				// Not the response to this request: the stream is out of
				// step; start the next request on a fresh connection so that
				// one fault is reported once.
				s.drop()
			}

			return o
		}

		waited := time.Since(since)
		s.drop()

		if o.res.Outcome == tbench.Closed && wantAnswer && waited > s.e.window() {
			// The server may have closed the connection because of its own
			// read timeout; not decidable.
			s.e.r.Bucket("ambiguous:stream-closed-after-long-wait", 1)
			if attempt == 0 {
				continue
			}

			o.ambiguous = fmt.Sprintf("connection closed %s after the previous write", waited)
		}

		return o
	}
}

// splitPause separates the pieces of a split frame in time, so that a server
// blocked in a read gets the first piece alone.
const splitPause = 8 * time.Millisecond

// splitFrame cuts the framed query at a boundary chosen by the position of the
// input in its list: after the first octet of the length prefix, after the
// prefix, in the middle of the DNS header, one byte before the end, or at all
// of them.
func splitFrame(in *input) (pieces [][]byte, kind string) {
	framed := tbench.Frame(in.wire)
	switch in.idx % 5 {
	case 0:
		return tbench.SplitAt(framed, 1), "after-first-prefix-octet"
	case 1:
		return tbench.SplitAt(framed, 2), "after-prefix"
	case 2:
		return tbench.SplitAt(framed, 8), "mid-header"
	case 3:
		return tbench.SplitAt(framed, len(framed)-1), "before-last-byte"
	default:
		return tbench.SplitAt(framed, 1, 2, 8, len(framed)-1), "after-first-prefix-octet+all"
	}
}

// burst writes the frames of all inputs back to back and then reads as many
// responses; responses are matched by ID.  Only for plain stream clients.
func (s *streamSession) burst(ins []*input) (obs []observation, unmatched [][]byte) {
	obs = make([]observation, len(ins))

	if s.p.halfClose {
		// One connection per burst: it ends with the burst.
		s.drop()
		defer s.afterHalfClose()
	}

	err := s.ensure()
	if err != nil {
		s.e.infraFailure(s.p.name+":dial", err)
		for i := range obs {
			obs[i].ambiguous = "dial failed: " + err.Error()
		}

		return obs, nil
	}

	since := s.c.LastWriteStart
	var all []byte
	for _, in := range ins {
		all = append(all, tbench.Frame(in.wire)...)
	}

	err = s.c.WriteRaw(all)
	if err != nil {
		s.drop()
		for i := range obs {
			obs[i].res = tbench.Result{Outcome: tbench.Closed, Err: err.Error()}
			if time.Since(since) > s.e.window() {
				obs[i].ambiguous = "write failed after a long wait"
			}
		}

		return obs, nil
	}

	if s.p.halfClose {
		// FIN / close_notify right behind the queries: the server's read loop
		// ends while the queries are still being handled.
		err = s.c.CloseWrite()
		if err != nil {
			s.e.infraFailure(s.p.name+":close-write", err)
			s.drop()
			for i := range obs {
				obs[i].ambiguous = "half-close failed: " + err.Error()
			}

			return obs, nil
		}
	}

	byID := map[uint16]int{}
	for i, in := range ins {
		byID[binary.BigEndian.Uint16(in.wire)] = i
	}

	for n := 0; n < len(ins); n++ {
		res := s.c.Read(s.e.answerWait)
		if res.Outcome != tbench.Answered {
			long := time.Since(since) > s.e.window()
			s.drop()
			for i := range obs {
				if obs[i].res.Outcome == "" {
					obs[i].res = res
					if long && res.Outcome == tbench.Closed {
						obs[i].ambiguous = "connection closed after a long wait"
					}
				}
			}

			return obs, unmatched
		}

		raw := res.Responses[0]
		i, ok := -1, false
		if len(raw) >= 2 {
			i, ok = byID[binary.BigEndian.Uint16(raw)]
		}

		switch {
		case !ok:
			unmatched = append(unmatched, raw)
		case obs[i].res.Outcome == "":
			obs[i].res = res
		default:
			obs[i].res.Responses = append(obs[i].res.Responses, raw)
		}
	}

	for i := range obs {
		if obs[i].res.Outcome == "" {
			obs[i].res = tbench.Result{Outcome: tbench.Timeout, Err: "no response with this ID among the burst's responses"}
		}
	}

	return obs, unmatched
}

// afterHalfClose checks that nothing but the end of the stream follows the
// answers of a half-closed burst.
func (s *streamSession) afterHalfClose() {
	if s.c == nil {
		return
	}

	frames, closed, rest := s.c.ReadUntilClosed(2 * time.Second)
	if len(frames) > 0 || len(rest) > 0 {
		s.e.r.Violation("any:"+s.p.name+":extra-frame-at-end", "the server sent data that belongs to no request",
			map[string]any{"path": s.p.name, "frames": len(frames), "first_hex": fmt.Sprintf("%x", append(frames, rest)[0])})
	}
	if closed {
		s.e.r.Bucket("halfclose_server_closed_after_answers:"+s.p.name, 1)
	}

	s.drop()
}

func (s *streamSession) finish() {
	if st := s.stream(); st != nil && s.dc == nil {
		// Nothing may follow the last response on a connection.
		frames, _, rest := st.ReadUntilClosed(100 * time.Millisecond)
		if len(frames) > 0 || len(rest) > 0 {
			s.e.r.Violation("any:"+s.p.name+":extra-frame-at-end", "the server sent data that belongs to no request",
				map[string]any{"path": s.p.name, "frames": len(frames), "first_hex": fmt.Sprintf("%x", append(frames, rest)[0])})
		}
	}

	s.drop()
}

// ---------------------------------------------------------------------------
// DoH, JSON and DoQ sessions.
// ---------------------------------------------------------------------------

type dohSession struct {
	e *env
	p *pathDef
	c *tbench.HTTPClient
}

func (s *dohSession) exchange(in *input, _ bool) (o observation) {
	for attempt := 0; ; attempt++ {
		// The body is cut into one to three pieces by the position of the
		// input in its list.
		pieces := 1 + in.idx%3

		switch {
		case s.p.get:
			o.res = s.c.Get(in.wire, s.e.answerWait)
		case s.p.framing == "unsized":
			o.res = s.c.PostUnsized(in.wire, pieces, s.e.answerWait)
		case s.p.framing == "raw-chunked":
			req := tbench.ChunkedPOST(s.e.b.PKI.ServerName, "/dns-query", tbench.SplitPieces(in.wire, pieces))
			if in.idx%3 == 2 {
				// Also cut the request itself: inside the request line, behind
				// the headers, and three bytes before the end.
				cut := tbench.SplitAt(req, 10, bytes.Index(req, []byte("\r\n\r\n"))+4, len(req)-3)
				s.e.r.Bucket("split:http-request:"+s.p.name, 1)
				o.res = s.e.b.RawHTTP1Pieces(s.p.variant, cut, time.Millisecond, s.e.answerWait)
			} else {
				o.res = s.e.b.RawHTTP1(s.p.variant, req, s.e.answerWait)
			}
			if o.res.Outcome == tbench.Closed || o.res.Outcome == tbench.Timeout {
				// No HTTP response at all on a fresh connection: treat like a
				// transport failure and try again.
				o.res.Outcome = tbench.Failed
			}
		default:
			o.res = s.c.Post(in.wire, s.e.answerWait)
		}

		if o.res.Outcome != tbench.Failed || attempt == 2 {
			return o
		}

		s.e.r.Bucket("http_transport_retry:"+s.p.name, 1)
	}
}

func (s *dohSession) finish() {}

type doqSession struct {
	e *env
	p *pathDef
	c *tbench.QUICClient
}

func (s *doqSession) exchange(in *input, wantAnswer bool) (o observation) {
	for attempt := 0; ; attempt++ {
		if s.c == nil || !s.c.Alive() {
			if s.c != nil {
				_ = s.c.Close()
			}

			var err error
			s.c, err = s.e.b.DialDoQ()
			if err != nil {
				s.c = nil
				s.e.infraFailure(s.p.name+":dial", err)
				if attempt < 2 {
					time.Sleep(100 * time.Millisecond)

					continue
				}

				return observation{ambiguous: "dial failed: " + err.Error()}
			}
		}

		o.res = s.c.Exchange(in.wire, s.e.answerWait)
		switch o.res.Outcome {
		case tbench.Answered:
			return o
		case tbench.QUICError:
			_ = s.c.Close()
			s.c = nil
			if o.res.QUICKind == "application" && o.res.QUICRemote {
				if wantAnswer && o.res.SendElapsed > decisiveWindow {
					// The server gives a stream two seconds to deliver its
					// query; the harness itself was too slow to be sure.
					s.e.r.Bucket("ambiguous:quic-slow-send", 1)
					if attempt == 0 {
						continue
					}

					o.ambiguous = fmt.Sprintf("query took %s to send", o.res.SendElapsed)
				}

				return o
			}

			// Idle timeouts and the like are the infrastructure's.
			s.e.r.Bucket("ambiguous:quic-"+o.res.QUICKind, 1)
			if attempt == 0 {
				continue
			}

			o.ambiguous = "QUIC connection failed: " + o.res.Err

			return o
		default:
			_ = s.c.Close()
			s.c = nil

			return o
		}
	}
}

func (s *doqSession) finish() {
	if s.c != nil {
		_ = s.c.Close()
	}
}

func (e *env) newSession(p *pathDef) (s session, err error) {
	switch p.family {
	case famUDP:
		c, dErr := e.b.DialUDP()
		if dErr != nil {
			return nil, dErr
		}

		return &udpSession{e: e, p: p, udp: c, sent: map[uint16]*sentRec{}}, nil
	case famDNSCryptUDP:
		c, dErr := e.b.DialDNSCrypt("udp")
		if dErr != nil {
			return nil, dErr
		}

		return &udpSession{e: e, p: p, dc: c, sent: map[uint16]*sentRec{}}, nil
	case famStream, famDNSCryptTCP:
		return &streamSession{e: e, p: p}, nil
	case famDoH, famJSON:
		return &dohSession{e: e, p: p, c: e.http[p.variant]}, nil
	case famDoQ:
		return &doqSession{e: e, p: p}, nil
	default:
		return nil, fmt.Errorf("no session for %s", p.name)
	}
}

// ---------------------------------------------------------------------------
// Judging.
// ---------------------------------------------------------------------------

// groupOf names the class of an input for violation keys and buckets.
func groupOf(in *input) (g string) {
	if in.family == "probe" {
		return "liveness"
	}
	if in.family == "prod" && in.cls == clsAccept {
		return "prod:" + in.tag
	}

	return in.cls.String()
}

func decodeForWitness(raw []byte) (s string) {
	m := &dns.Msg{}
	if err := m.Unpack(raw); err != nil {
		return "undecodable: " + err.Error()
	}

	return m.String()
}

// limitLo returns the size above which a truncation is justified on path p.
func limitLo(p *pathDef, in *input) (limit int) {
	switch p.family {
	case famUDP:
		return udpLimit(in.msg, configuredUDPMax)
	case famDNSCryptUDP:
		// The server normalises for max(512, advertised); the DNSCrypt
		// library then truncates to 64 bytes less than that.
		return udpLimit(in.msg, dns.MaxMsgSize) - 64
	default:
		return 0
	}
}

// judge compares an observation with the expectation.
func (e *env) judge(p *pathDef, in *input, exp expectation, res tbench.Result) (ps []problem, c *canon, note string) {
	one := func() (raw []byte, ps []problem) {
		switch {
		case res.Outcome != tbench.Answered:
			return nil, []problem{{"not-answered:" + string(res.Outcome), "expected exactly one response, observed " + res.String()}}
		case len(res.Responses) != 1:
			return nil, []problem{{"response-count", fmt.Sprintf("expected exactly one response, observed %d", len(res.Responses))}}
		case len(res.Trailing) > 0:
			return nil, []problem{{"trailing-bytes", fmt.Sprintf("%d bytes follow the response on the stream", len(res.Trailing))}}
		case len(res.Responses[0]) < 12:
			return nil, []problem{{"response-runt", fmt.Sprintf("response of %d bytes", len(res.Responses[0]))}}
		}

		return res.Responses[0], nil
	}

	answered := func() []problem {
		if res.Outcome != tbench.Answered {
			return nil
		}

		return []problem{{"answered", "expected no DNS response, observed " + res.String() + " decoded: " + decodeAll(res)}}
	}

	quicProtocolError := func() []problem {
		if res.Outcome == tbench.QUICError && res.QUICKind == "application" && res.QUICRemote && res.QUICCode == 2 && len(res.Responses) == 0 {
			return nil
		}
		if ps := answered(); ps != nil {
			return ps
		}

		return []problem{{"not-protocol-error", "expected the connection to be closed with DOQ_PROTOCOL_ERROR, observed " + res.String()}}
	}

	switch exp.kind {
	case expRef:
		raw, ps := one()
		if ps != nil {
			return ps, nil, ""
		}

		ps, cn, note := checkAgainstRef(in, raw, exp.ref, limitLo(p, in))

		return ps, &cn, note
	case expRcode:
		raw, ps := one()
		if ps != nil {
			return ps, nil, ""
		}

		return checkRcodeResponse(in, raw, exp.rcodes, false, true), nil, ""
	case expServfail:
		raw, ps := one()
		if ps != nil {
			return ps, nil, ""
		}

		return checkRcodeResponse(in, raw, []int{dns.RcodeServerFailure}, true, true), nil, ""
	case expQUICProtocolError:
		return quicProtocolError(), nil, ""
	case expOne:
		raw, ps := one()
		if ps != nil && res.Outcome == tbench.Answered && len(res.Responses) > 1 && len(res.Responses[0]) >= 12 {
			// More than one response: what the first one says still takes part
			// in the comparison of the transports.
			first := &dns.Msg{}
			if first.Unpack(res.Responses[0]) == nil {
				cn := canonOf(first, first.Truncated)

				return ps, &cn, ""
			}
		}
		if ps != nil {
			return ps, nil, ""
		}

		resp := &dns.Msg{}
		if err := resp.Unpack(raw); err != nil {
			return []problem{{"response-undecodable", "the response does not parse: " + err.Error()}}, nil, ""
		}

		ps = checkEchoes(in, raw, resp, true)
		if qEnd := questionEnd(in.wire); qEnd > 0 && (len(raw) < qEnd || !bytes.Equal(raw[12:qEnd], in.wire[12:qEnd])) && len(ps) == 0 {
			ps = append(ps, problem{"question-bytes-differ", "the question section of the response is not byte-equal to the request's"})
		}

		cn := canonOf(resp, resp.Truncated)

		return ps, &cn, ""
	}

	// expNothing and expDrop.
	switch p.family {
	case famUDP, famDNSCryptUDP:
		if res.Outcome == tbench.Silence {
			return nil, nil, ""
		}
	case famStream, famDNSCryptTCP:
		if res.Outcome == tbench.Closed && len(res.Responses) == 0 {
			return nil, nil, ""
		}
	case famDoH, famJSON:
		lo := 500
		if exp.kind == expDrop {
			lo = 400
		}
		if res.Outcome == tbench.HTTPStatus && res.HTTPStatus >= lo && res.HTTPStatus <= 599 {
			return nil, nil, ""
		}
	case famDoQ:
		return quicProtocolError(), nil, ""
	}

	if ps := answered(); ps != nil {
		return ps, nil, ""
	}

	return []problem{{"wrong-treatment:" + string(res.Outcome), "expected the documented " + exp.kind.String() + " treatment, observed " + res.String()}}, nil, ""
}

// questionEnd returns the offset behind the first question of a message whose
// question name is not compressed, or 0.
func questionEnd(wire []byte) (off int) {
	off = 12
	for off < len(wire) {
		l := int(wire[off])
		if l == 0 {
			if off+5 <= len(wire) {
				return off + 5
			}

			return 0
		}
		if l&0xc0 != 0 {
			return 0
		}

		off += 1 + l
	}

	return 0
}

func decodeAll(res tbench.Result) (s string) {
	var parts []string
	for _, raw := range res.Responses {
		parts = append(parts, decodeForWitness(raw))
	}
	if len(parts) == 0 && len(res.Body) > 0 {
		parts = append(parts, fmt.Sprintf("body %q", res.Body))
	}

	return strings.Join(parts, " || ")
}

// report files the problems of one evaluation as violations.
func (e *env) report(p *pathDef, in *input, exp expectation, res tbench.Result, ps []problem) {
	for _, pr := range ps {
		key := groupOf(in) + ":" + p.name + ":" + pr.key
		if in.cls == clsAccept && in.family != "probe" {
			key = "accept/" + exp.tag + ":" + p.name + ":" + pr.key
		}

		if in.family == "prod" && in.cls == clsAccept {
			// Collected and reported per problem and common input features at
			// the end of the phase, see prodSummarise.
			e.prodProblem(in, p.name, pr.key, pr.what, res)

			continue
		}

		if p.family == famDoQ && (res.Outcome == tbench.Answered || res.Outcome == tbench.QUICError) &&
			extensionSensitive(in.wire, in.tail) {
			// The message means something else when other bytes follow it in
			// memory, and the DoQ server did not treat it the way its own
			// bytes demand (answered although undecodable, answered with a
			// question or records that are not in it, or refused although
			// decodable).
			key = "doq:short-message-decoded-from-stale-buffer"
		}

		w := in.witness()
		w["path"] = p.name
		w["expected"] = exp.kind.String() + " (" + exp.why + ")"
		if exp.ref != nil {
			w["reference"] = exp.ref.String()
		}
		w["observed"] = res.String()
		w["observed_decoded"] = decodeAll(res)
		w["problem"] = pr.what
		e.r.Violation(key, pr.what, w)
	}
}

// evalOne evaluates one input on one path through session s.
func (e *env) evalOne(p *pathDef, s session, in *input) {
	if p.family == famJSON {
		e.evalJSON(p, s.(*dohSession), in)

		return
	}

	if p.family == famUDP && len(in.wire) > udpReadBuffer {
		// "UDPSize is the size of the buffers used to read incoming UDP
		// messages": the server sees the first 512 bytes of a longer datagram,
		// and the documented treatment is the one of those bytes.
		cut := *in
		cut.cls, cut.msg = classify(in.wire[:udpReadBuffer])
		cut.shape = "udp-oversize|" + in.shape + "|" + cut.cls.String()
		in = &cut
		e.r.Bucket("udp_oversize_datagrams:"+p.name, 1)
	}

	exp := expect(p, in)
	wantAnswer := exp.kind == expRef || exp.kind == expRcode || exp.kind == expServfail || exp.kind == expOne

	if e.inflight != nil {
		e.inflight.enter(p.name)
	}
	began := time.Now()
	o := s.exchange(in, wantAnswer)
	o.elapsed = time.Since(began)
	if e.inflight != nil {
		e.inflight.leave(p.name)
	}

	if p.prod && o.elapsed > prodCtxTimeout/2 && o.ambiguous == "" && o.skipped == "" && o.res.Outcome == tbench.Answered {
		// The servers of the production benches give a request one second; an
		// exchange that took half of that may have been answered SERVFAIL for
		// the harness' own slowness.
		o.ambiguous = fmt.Sprintf("exchange took %s", o.elapsed)
	}

	e.account(p, in, exp, o)
}

// account judges an observation and does the bookkeeping.
func (e *env) account(p *pathDef, in *input, exp expectation, o observation) {
	switch {
	case o.skipped != "":
		e.r.Bucket("skipped:"+p.name, 1)

		return
	case o.ambiguous != "":
		e.r.Bucket("ambiguous:"+p.name, 1)

		return
	}

	ps, c, note := e.judge(p, in, exp, o.res)
	e.report(p, in, exp, o.res, ps)

	group := groupOf(in)
	if in.cls == clsAccept && in.family != "probe" {
		group = "accept/" + exp.tag
	}

	e.r.Eval(p.name+"|"+in.shape+"|"+exp.kind.String(), true)
	e.r.Bucket("path:"+p.name+":"+group, 1)
	e.r.Bucket("class:"+group, 1)
	e.r.Bucket("family:"+in.family, 1)
	if in.family == "probe" {
		e.r.Bucket("liveness_probes", 1)
		if len(ps) == 0 {
			e.r.Bucket("liveness_probes_answered", 1)
		}
	}
	if note != "" {
		e.r.Bucket("udp_response_"+note+":"+p.name, 1)
	}
	if in.msg != nil && len(in.msg.Question) == 0 && !in.msg.Response {
		e.r.Bucket("zero_question_inputs:"+p.name, 1)
	}
	if o.res.HTTPProto != "" {
		e.r.Bucket("http_proto:"+p.name+":"+o.res.HTTPProto, 1)
	}

	if in.family == "prod" && o.res.Outcome == tbench.Answered {
		e.r.Bucket("prod_answered:"+p.name, 1)
	}

	if c != nil && (in.family == "valid" || in.family == "valid-large" || in.family == "prod") {
		e.mu.Lock()
		if e.canons[in.idx] == nil {
			e.canons[in.idx] = map[string]canon{}
		}
		e.canons[in.idx][p.name] = *c
		e.mu.Unlock()
	}

	if len(ps) == 0 {
		e.sample(p.name+"|"+group, map[string]any{
			"path": p.name, "input": in.witness(), "expected": exp.kind.String() + " (" + exp.why + ")", "observed": o.res.String(),
		})
	}
}

// sample records one written-out case for a few chosen (path, class) pairs.
func (e *env) sample(class string, v any) {
	e.mu.Lock()
	_, want := e.wantSamples[class]
	delete(e.wantSamples, class)
	e.mu.Unlock()

	if want {
		e.r.Sample(v)
	}
}

// ---------------------------------------------------------------------------
// JSON API.
// ---------------------------------------------------------------------------

// jsonMsg is the documented JSON response format.
type jsonMsg struct {
	Question []struct {
		Name string `json:"name"`
		Type uint16 `json:"type"`
	} `json:"Question"`
	Answer []jsonRR `json:"Answer"`
	Extra  []jsonRR `json:"Extra"`
	TC     bool     `json:"TC"`
	RD     bool     `json:"RD"`
	RA     bool     `json:"RA"`
	AD     bool     `json:"AD"`
	CD     bool     `json:"CD"`
	Status int      `json:"Status"`
}

type jsonRR struct {
	Name  string `json:"name"`
	Data  string `json:"data"`
	TTL   uint32 `json:"TTL"`
	Type  uint16 `json:"type"`
	Class uint16 `json:"class"`
}

func jsonOf(rrs []dns.RR) (out []jsonRR) {
	out = []jsonRR{}
	for _, rr := range rrs {
		h := rr.Header()
		if h.Rrtype == dns.TypeOPT {
			continue
		}

		out = append(out, jsonRR{
			Name: h.Name, Type: h.Rrtype, Class: h.Class, TTL: h.Ttl,
			Data: strings.TrimLeft(strings.TrimPrefix(rr.String(), h.String()), " "),
		})
	}

	return out
}

func nonOPTJSON(rrs []jsonRR) (out []jsonRR) {
	out = []jsonRR{}
	for _, rr := range rrs {
		if rr.Type != dns.TypeOPT {
			out = append(out, rr)
		}
	}

	return out
}

// evalJSON sends the (name, type, class, CD, DO) projection of a well-formed
// query to the JSON API and compares the document with the reference for the
// request that the API documents it builds (RD set, CD as given, OPT only
// with do=1).
func (e *env) evalJSON(p *pathDef, s *dohSession, in *input) {
	if in.cls != clsAccept {
		return
	}

	q := in.msg.Question[0]
	if q.Qtype == 0 || q.Qclass == 0 {
		// The parameters are documented as numbers in [1, 65535].
		e.r.Bucket("skipped:"+p.name, 1)

		return
	}

	do := false
	if o := in.msg.IsEdns0(); o != nil {
		do = o.Do()
	}

	params := url.Values{
		"name": {q.Name},
		"type": {strconv.Itoa(int(q.Qtype))},
		"qc":   {strconv.Itoa(int(q.Qclass))},
	}
	if in.msg.CheckingDisabled {
		params.Set("cd", "1")
	}
	if do {
		params.Set("do", "true")
	}

	proj := &dns.Msg{
		MsgHdr:   dns.MsgHdr{RecursionDesired: true, CheckingDisabled: in.msg.CheckingDisabled},
		Question: []dns.Question{q},
	}
	if do {
		proj.SetEdns0(dns.MaxMsgSize, true)
	}

	kind, ref := reference(proj)
	if kind == refBadPack {
		// The JSON writer does not pack the message; nothing is documented
		// for a response that only the wire format cannot carry.
		e.r.Bucket("skipped:"+p.name, 1)

		return
	}

	var res tbench.Result
	for attempt := 0; attempt < 3; attempt++ {
		res = s.c.JSON(params, e.answerWait)
		if res.Outcome != tbench.Failed {
			break
		}
	}

	var ps []problem
	expName := "json-document"
	switch {
	case kind == refSilent:
		expName = "http-500"
		if res.Outcome != tbench.HTTPStatus || res.HTTPStatus < 500 {
			ps = append(ps, problem{"wrong-treatment", "handler wrote nothing: expected HTTP 5xx, observed " + res.String()})
		}
	case res.Outcome != tbench.Answered:
		ps = append(ps, problem{"not-answered:" + string(res.Outcome), "expected a JSON document, observed " + res.String() + " " + string(res.Body)})
	default:
		doc := &jsonMsg{}
		err := json.Unmarshal(res.Body, doc)
		if err != nil {
			ps = append(ps, problem{"json-undecodable", err.Error()})

			break
		}

		wantStatus, wantAn, wantAr := dns.RcodeServerFailure, []jsonRR{}, []jsonRR{}
		wantRA, wantAD := false, false
		if kind == refWrote {
			wantStatus, wantAn, wantAr = ref.Rcode, jsonOf(ref.Answer), jsonOf(ref.Extra)
			wantRA, wantAD = ref.RecursionAvailable, ref.AuthenticatedData
		}

		if doc.Status != wantStatus {
			ps = append(ps, problem{"status-mismatch", fmt.Sprintf("Status %d, reference rcode %d", doc.Status, wantStatus)})
		}
		if len(doc.Question) != 1 || doc.Question[0].Name != q.Name || doc.Question[0].Type != q.Qtype {
			ps = append(ps, problem{"question-mismatch", fmt.Sprintf("Question %+v, requested %s", doc.Question, questionString(q))})
		}
		if doc.TC || !doc.RD || doc.CD != in.msg.CheckingDisabled || (kind == refWrote && (doc.RA != wantRA || doc.AD != wantAD)) {
			ps = append(ps, problem{"flags-mismatch", fmt.Sprintf("TC=%t RD=%t RA=%t AD=%t CD=%t, reference TC=false RD=true RA=%t AD=%t CD=%t",
				doc.TC, doc.RD, doc.RA, doc.AD, doc.CD, wantRA, wantAD, in.msg.CheckingDisabled)})
		}
		if got := fmt.Sprint(nonOPTJSON(doc.Answer)); got != fmt.Sprint(wantAn) {
			ps = append(ps, problem{"answer-mismatch", fmt.Sprintf("Answer %s, reference %v", got, wantAn)})
		}
		if got := fmt.Sprint(nonOPTJSON(doc.Extra)); got != fmt.Sprint(wantAr) {
			ps = append(ps, problem{"extra-mismatch", fmt.Sprintf("Extra %s, reference %v", got, wantAr)})
		}
	}

	for _, pr := range ps {
		w := in.witness()
		w["path"] = p.name
		w["params"] = params.Encode()
		w["reference_kind"] = kind.String()
		if ref != nil {
			w["reference"] = ref.String()
		}
		w["observed"] = res.String()
		w["body"] = string(res.Body)
		e.r.Violation("accept/"+kind.String()+":"+p.name+":"+pr.key, pr.what, w)
	}

	e.r.Eval(p.name+"|"+in.shape+"|"+expName, true)
	e.r.Bucket("path:"+p.name+":accept/"+expName, 1)
	e.r.Bucket("class:accept/"+expName, 1)
	if res.HTTPProto != "" {
		e.r.Bucket("http_proto:"+p.name+":"+res.HTTPProto, 1)
	}
}

// ---------------------------------------------------------------------------
// Workload drivers.
// ---------------------------------------------------------------------------

// runPhase runs ins over every active path with the given number of workers
// per path; worker w of a path takes the inputs whose position is w modulo the
// number of workers.  With probeEvery > 0 a liveness probe follows every so
// many inputs and the end of the list, through the same session.
func (e *env) runPhase(paths []*pathDef, ins []*input, workers func(*pathDef) int, probeEvery int) {
	wg := &sync.WaitGroup{}
	for _, p := range paths {
		nw := workers(p)
		for w := 0; w < nw; w++ {
			wg.Add(1)
			go func(p *pathDef, w, nw int) {
				defer wg.Done()
				defer func() {
					if v := recover(); v != nil {
						e.r.Inconclusive(fmt.Sprintf("harness panic in worker %s/%d: %v", p.name, w, v))
					}
				}()

				e.runWorker(p, ins, w, nw, probeEvery)
			}(p, w, nw)
		}
	}

	wg.Wait()
}

func (e *env) nextProbe() *input {
	return genProbe(int(e.probeCounter.Add(1)), e.salt)
}

func (e *env) runWorker(p *pathDef, ins []*input, w, nw, probeEvery int) {
	s, err := e.newSession(p)
	if err != nil {
		e.infraFailure(p.name+":session", err)
		e.r.Inconclusive(fmt.Sprintf("cannot open a client session for %s: %v", p.name, err))

		return
	}
	defer s.finish()

	var mine []*input
	for i, in := range ins {
		if i%nw == w {
			mine = append(mine, in)
		}
	}

	if p.pipelined > 0 {
		e.runPipelined(p, s.(*streamSession), mine)

		return
	}

	for k, in := range mine {
		e.evalOne(p, s, in)
		if probeEvery > 0 && ((k+1)%probeEvery == 0 || k == len(mine)-1) {
			e.evalOne(p, s, e.nextProbe())
		}
	}
}

// runPipelined sends the inputs that are expected to be answered in bursts.
func (e *env) runPipelined(p *pathDef, s *streamSession, mine []*input) {
	type item struct {
		in  *input
		exp expectation
	}

	var burst []item
	nBursts := 0
	flush := func() {
		if len(burst) == 0 {
			return
		}

		ins := make([]*input, len(burst))
		for i, it := range burst {
			ins[i] = it.in
		}

		obs, unmatched := s.burst(ins)
		for i, it := range burst {
			e.account(p, it.in, it.exp, obs[i])
		}
		for _, raw := range unmatched {
			e.r.Violation("any:"+p.name+":foreign-id", "a response arrived whose ID belongs to no request of the burst",
				map[string]any{"path": p.name, "frame_hex": fmt.Sprintf("%x", raw), "decoded": decodeForWitness(raw)})
		}
		e.r.Bucket("pipelined_bursts:"+p.name, 1)
		burst = burst[:0]
	}

	for _, in := range mine {
		if in.cls != clsAccept {
			continue
		}

		exp := expect(p, in)
		if exp.kind != expRef && exp.kind != expServfail {
			// Inputs that make the server close the connection would take
			// their burst down with them.
			continue
		}

		burst = append(burst, item{in, exp})
		want := p.pipelined
		if p.halfClose {
			// Bursts of 1, 2, … queries in turn.
			want = 1 + nBursts%p.pipelined
		}
		if len(burst) >= want {
			flush()
			nBursts++
		}
	}

	flush()
}

// crossCompare checks that the transports agree on every well-formed query.
func (e *env) crossCompare(r *vkit.Run, ins []*input) {
	e.crossCompareWith(allPaths, ins, func(_ *input, field string) string { return "cross-transport:" + field })
}

// crossCompareWith is crossCompare over the given paths with a caller-chosen
// violation key.
func (e *env) crossCompareWith(order []*pathDef, ins []*input, keyFor func(in *input, field string) string) {
	r := e.r
	counter := "cross_transport_comparisons"
	if len(order) > 0 && order[0].prod {
		counter = "prod_cross_transport_comparisons"
	}

	for _, in := range ins {
		cs := e.canons[in.idx]
		if len(cs) < 2 {
			continue
		}

		// Deterministic order, full responses first.
		var names []string
		for _, p := range order {
			if _, ok := cs[p.name]; ok {
				names = append(names, p.name)
			}
		}

		base := ""
		for _, n := range names {
			if !cs[n].truncated {
				base = n

				break
			}
		}
		if base == "" {
			base = names[0]
		}

		for _, n := range names {
			if n == base {
				continue
			}

			a, b := cs[base], cs[n]
			r.Bucket(counter, 1)

			diffs := []string{}
			if a.hdr != b.hdr {
				diffs = append(diffs, "header")
			}
			if a.question != b.question {
				diffs = append(diffs, "question")
			}
			if a.opt != b.opt {
				diffs = append(diffs, "opt")
			}
			if !a.truncated && !b.truncated && a.sections != b.sections {
				diffs = append(diffs, "records")
			}

			for _, d := range diffs {
				if in.family == "prod" {
					e.prodProblem(in, base+"~"+n, "cross-transport:"+d,
						fmt.Sprintf("%s and %s disagree: %+v vs %+v", base, n, a, b), tbench.Result{})

					continue
				}

				w := in.witness()
				w["path_a"], w["path_b"] = base, n
				w["canon_a"] = fmt.Sprintf("%+v", a)
				w["canon_b"] = fmt.Sprintf("%+v", b)
				r.Violation(keyFor(in, d), "two transports disagree on the same query beyond truncation, padding and keep-alive", w)
			}
		}
	}
}
