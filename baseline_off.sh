#!/bin/sh
# Runs the repository's baseline test suite with the verif build tag OFF
# (same command as /root/.vp/BASELINE.json; go.work is present, so no -mod flag).
export GOPROXY=off GOSUMDB=off GOTOOLCHAIN=local
rc=0
for m in . ./internal/dnsserver; do
	(cd /repo/$m && go test -json -vet=off -count=1 -timeout 25m ./...) || rc=1
done
exit $rc
